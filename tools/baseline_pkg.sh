#!/bin/bash
# tools/baseline_pkg.sh <repo-dir> <pkg>... : run the package tests (guard off) and compare with the pinned stable_pass list
repo=$1; shift
rc=0
for p in "$@"; do
  out=/var/tmp/baseline.$(echo $p | tr / _).$$.json
  (cd $repo && go test -mod=mod -vet=off -count=1 -timeout 40m -json ./$p > $out 2>&1)
  python3 - "$p" "$out" <<'PY' || rc=1
import json,sys
pkg='github.com/couchbase/sync_gateway/'+sys.argv[1]
stable=set(x for x in json.load(open('/root/.vp/BASELINE.json'))['stable_pass'] if x.startswith(pkg+'::'))
res={}
for l in open(sys.argv[2]):
    try: e=json.loads(l)
    except Exception: continue
    if e.get('Test') and e.get('Action') in ('pass','fail','skip') and e.get('Package')==pkg:
        res[pkg+'::'+e['Test']]=e['Action']
bad=sorted(t for t in stable if res.get(t)!='pass')
print(f"{sys.argv[1]}: stable {len(stable)}, not passing: {len(bad)} {bad[:8]}")
sys.exit(1 if bad else 0)
PY
  rm -f $out
done
exit $rc
