#!/usr/bin/env python3
"""Regenerates /verif/MANIFEST.json from tools/claims.json (per-property claim text) — keeps the manifest valid."""
import json, subprocess, os
root = os.path.dirname(os.path.dirname(os.path.abspath(__file__)))
props = [json.loads(l) for l in open(os.path.join(root, 'properties.jsonl'))]
claims = json.load(open(os.path.join(root, 'tools', 'claims.json')))
hooks = subprocess.run(['git', '-C', '/repo', 'log', '--format=%h %s', '4112744..HEAD'], capture_output=True, text=True).stdout.strip().split('\n')
hook_commits = [l.split()[0] for l in hooks if l and 'verif hook' in l]
m = {
 "version": 1,
 "setup_cmd": "cd /verif/engine && PATH=/opt/veriftools/go1.26.8/bin:$PATH GOFLAGS=-mod=mod GOPROXY=off GOSUMDB=off GOTOOLCHAIN=local go build -o /verif/bin/govc ./cmd/govc && /verif/bin/govc warm",
 "hooks": {"guard": "verif", "enable": "go build -tags=verif (contract files /repo/<pkg>/zz_verif_*.go are comment-only and carry //go:build verif; govc loads /repo with -tags=verif)",
           "baseline_off_cmd": json.load(open('/root/.vp/BASELINE.json'))["cmd"], "source_commits": hook_commits, "add_only": True},
 "engines": [{"name": "govc", "path": "/verif/engine", "serves_properties": sorted(claims["claimed"].keys()),
              "kind_free_text": "contract-based deductive verifier for Go written for this task: go/packages+go/ssa front end over /repo's working tree, weakest-precondition style VC generation (passive form, loop cutting by invariants, modular calls by contract), obligations discharged by z3 5.1.0 / z3 4.8.12 / cvc5 1.0.3 raced; counterexamples replayed on the real code with go test -overlay"}],
 "checks": [], "not_applicable": [],
 "notes": "See DESIGN.md. ./check <id> quick|thorough; ./check selftest runs the must-fail corpus. known_findings.txt lists fixed defects and recorded findings."
}
for p in props:
    pid = p["id"]
    if pid in claims["claimed"]:
        c = claims["claimed"][pid]
        m["checks"].append({
            "property_id": pid, "quick_cmd": f"./check {pid} quick", "thorough_cmd": f"./check {pid} thorough",
            "evidence_file": f"/verif/evidence/{pid}.json", "replay_cmd_template": "./check --replay {path}", "engine": "govc",
            "level_claimed": {"category": c.get("category", "proof"), "text": c["text"], "design_ref": c.get("design_ref", "DESIGN.md section 5 (" + pid + ")")},
            "level_note": c["note"], "technique": c.get("technique", "contract-based deductive verification of the real Go code (govc VC generator over go/ssa + SMT)")})
    else:
        m["not_applicable"].append({"property_id": pid, "reason": claims["not_applicable"].get(pid, "not yet built in this session (engine under construction); plan in DESIGN.md section 5")})
json.dump(m, open(os.path.join(root, 'MANIFEST.json'), 'w'), indent=1)
print("claimed:", sorted(claims["claimed"].keys()))
