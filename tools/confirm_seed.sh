#!/bin/bash
# tools/confirm_seed.sh <prop> <n> : confirm a sub-agent mutation in a scratch worktree and store it under /verif/seeded/<prop>_m<n>/
# Checks: demo passes on pristine, demo fails with patch, existing tests of touched packages pass with patch.
set -u
prop=$1; n=$2
src=/tmp/mut/$prop/out/m$n
dst=/verif/seeded/${prop}_m$n
wt=/tmp/seedchk/${prop}_m$n
mkdir -p /tmp/seedchk "$dst"
cp "$src/patch.diff" "$dst/patch.diff"
demo=$(ls "$src"/zz_mut_demo*_test.go | head -1)
cp "$demo" "$dst/"
cp "$src/meta.json" "$dst/agent_meta.json" 2>/dev/null
git -C /repo worktree add --detach "$wt" 4112744 -q || exit 2
cd "$wt"
# package dir of the demo: from its package clause + agent meta; try db, rest, auth, channels, base
pkgname=$(grep -m1 '^package ' "$demo" | awk '{print $2}')
case "$pkgname" in db|rest|auth|channels|base) pkgdir=$pkgname;; *) pkgdir=$(jq -r '.demo_run_cmd' "$src/meta.json" | grep -o '\./[a-z/]*' | head -1 | sed 's|^\./||');; esac
cp "$demo" "$pkgdir/"
tests=$(grep -o '^func Test[A-Za-z0-9_]*' "$demo" | sed 's/func //' | paste -sd'|')
log="$dst/confirm.log"; : > "$log"
echo "== demo on pristine (expect PASS): go test -run '$tests' ./$pkgdir" >> "$log"
go test -mod=mod -vet=off -count=1 -timeout 20m -run "^($tests)\$" ./$pkgdir >> "$log" 2>&1; r1=$?
git apply "$src/patch.diff" || { echo "patch does not apply" >> "$log"; }
echo "== demo with patch (expect FAIL)" >> "$log"
go test -mod=mod -vet=off -count=1 -timeout 20m -run "^($tests)\$" ./$pkgdir 2>&1 | tail -40 >> "$log"; r2=${PIPESTATUS[0]}
rm -f "$pkgdir/$(basename $demo)"
touched=$(git diff --name-only | xargs -n1 dirname | sort -u | grep -v '^\.$' )
r3=0
for p in $touched; do
  echo "== existing tests with patch: ./$p (compared with the pinned stable_pass list)" >> "$log"
  go test -mod=mod -vet=off -count=1 -timeout 40m -json ./$p > /tmp/seedchk/${prop}_m$n.$(echo $p|tr / _).json 2>&1
  python3 - "$p" /tmp/seedchk/${prop}_m$n.$(echo $p|tr / _).json >> "$log" <<'PY' || r3=1
import json,sys
pkg='github.com/couchbase/sync_gateway/'+sys.argv[1]
stable=set(x for x in json.load(open('/root/.vp/BASELINE.json'))['stable_pass'] if x.startswith(pkg+'::'))
res={}
for l in open(sys.argv[2]):
    try: e=json.loads(l)
    except Exception: continue
    if e.get('Test') and e.get('Action') in ('pass','fail','skip') and e.get('Package')==pkg:
        res[pkg+'::'+e['Test']]=e['Action']
bad=[t for t in stable if res.get(t)!='pass']
other=[t for t,a in res.items() if a=='fail' and t not in stable]
print(f"stable tests: {len(stable)}, not passing with patch: {len(bad)} {bad[:10]}; failing but not in stable list (pre-existing/offline): {other[:10]}")
sys.exit(1 if bad else 0)
PY
done
cd / && git -C /repo worktree remove --force "$wt"
python3 - "$dst" "$prop" "$n" "$r1" "$r2" "$r3" "$pkgdir" "$tests" "$touched" <<'PY'
import json,sys,os
dst,prop,n,r1,r2,r3,pkgdir,tests,touched=sys.argv[1:10]
am={}
try: am=json.load(open(os.path.join(dst,'agent_meta.json')))
except Exception: pass
meta={"property":prop,"mutation":int(n),"summary":am.get("summary"),"needs_to_manifest":am.get("needs_to_manifest"),
 "confirmed":{"demo_passes_on_pristine":r1=="0","demo_fails_with_patch":r2!="0","existing_tests_of_touched_packages_pass_with_patch":r3=="0"},
 "what_i_ran":[f"go test -run '^({tests})$' ./{pkgdir} on pristine and with patch.diff applied (scratch worktree)", f"go test ./{touched} with patch.diff applied"],
 "demo_file":[f for f in os.listdir(dst) if f.endswith('_test.go')]}
json.dump(meta,open(os.path.join(dst,'meta.json'),'w'),indent=1)
print(dst, meta["confirmed"])
PY
