#!/bin/bash
# tools/run_seed.sh <seed-dir-name> [prop]  : run the property's check against a seeded mutation in a scratch copy of /repo
# (never in /repo itself). Result in seeded/<seed>/detect.txt.
set -u
seed=$1; dir=/verif/seeded/$seed
prop=${2:-$(jq -r .property $dir/meta.json)}
wt=/tmp/seedrun/$seed.$$
mkdir -p /tmp/seedrun
git -C /repo worktree add --detach "$wt" HEAD -q || exit 2
# uncommitted contract files
(cd /repo && ls */zz_verif_*.go 2>/dev/null) | while read f; do cp /repo/$f $wt/$f; done
cd "$wt"
applied=0
if [ -f "$dir/patch_rebased.diff" ]; then git apply "$dir/patch_rebased.diff" && applied=1; fi
if [ $applied = 0 ]; then git apply "$dir/patch.diff" 2>/dev/null && applied=1; fi
if [ $applied = 0 ]; then
  if git apply --3way "$dir/patch.diff" 2>/tmp/seedrun/$seed.applyerr; then applied=1; else
    echo "PATCH-DOES-NOT-APPLY (needs patch_rebased.diff)" > $dir/detect.txt; cat /tmp/seedrun/$seed.applyerr >> $dir/detect.txt
    cd /; git -C /repo worktree remove --force "$wt"; cat $dir/detect.txt; exit 3
  fi
fi
if ! (PATH=/opt/veriftools/go1.26.8/bin:$PATH GOFLAGS=-mod=mod GOPROXY=off GOSUMDB=off GOTOOLCHAIN=local go build ./db ./auth ./base ./channels ./rest >/dev/null 2>&1); then echo "warning: build failed with patch" ; fi
cd /verif
./bin/govc check -prop $prop -repo "$wt" -replays /tmp/seedrun/replays.$seed > /tmp/seedrun/$seed.out 2>&1; rc=$?
{ echo "property=$prop exit=$rc"; grep -E "VIOLATION|KNOWN-FINDING|^govc|REFUTED|UNDISCHARGED|generation errors|outside supported" /tmp/seedrun/$seed.out | sed "s|$wt|<scratch>|g" | head -40; } > $dir/detect.txt
git -C /repo worktree remove --force "$wt"; rm -rf /tmp/seedrun/replays.$seed
head -3 $dir/detect.txt
