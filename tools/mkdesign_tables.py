#!/usr/bin/env python3
"""Regenerates the machine-derived tables of DESIGN.md section 10 (between the GENERATED markers) from
evidence/*.json, known_findings.txt and seeded/*/ (meta.json, expect.txt)."""
import json, os, re, glob

os.chdir(os.path.dirname(os.path.abspath(__file__)) + '/..')
props = {}
for l in open('properties.jsonl'):
    d = json.loads(l)
    props[d['id']] = d['title']

out = []
out.append('| id | title | functions under contract | obligations discharged / generated (quick) | known findings | thorough-only | wall s |')
out.append('|----|-------|--------------------------|-------------------------------------------|----------------|---------------|--------|')
for pid in sorted(props):
    f = f'evidence/{pid}.json'
    if not os.path.exists(f):
        out.append(f'| {pid} | {props[pid]} | - | no evidence | | | |')
        continue
    e = json.load(open(f))
    c = e['coverage']
    kf = c.get('known_findings') or []
    out.append(f"| {pid} | {props[pid]} | {len(c.get('functions_under_contract') or [])} | {c.get('discharged')} / {c.get('obligations', 0) + len(kf)} | {len(kf)} | {len(c.get('deferred_to_thorough_tier') or [])} | {e.get('wall_s', 0):.0f} |")
status = '\n'.join(out)

# findings
fl = []
fl.append('| property | state | obligation | what fails |')
fl.append('|----------|-------|------------|------------|')
for l in open('known_findings.txt'):
    l = l.strip()
    if not l or l.startswith('#'):
        continue
    m = re.match(r'(fixed|finding):\s+property=(\S+)\s+(?:(\S+)\s+)?obligation=(\S+)\s+(.*)', l)
    if not m:
        continue
    kind, pid, commit, obl, what = m.groups()
    state = f'**fixed** ({commit})' if kind == 'fixed' else 'known finding'
    what = what.replace('|', '\\|')
    if len(what) > 330:
        what = what[:327] + '...'
    fl.append(f'| {pid} | {state} | `{obl}` | {what} |')
findings = '\n'.join(fl)

# seeds
sl = []
sl.append('| seed | change | needs to manifest | caught by |')
sl.append('|------|--------|-------------------|-----------|')
for d in sorted(glob.glob('seeded/*/')):
    name = os.path.basename(d.rstrip('/'))
    try:
        m = json.load(open(d + 'meta.json'))
    except Exception:
        continue
    summ = (m.get('summary') or '').replace('\n', ' ').replace('|', '\\|')
    need = (m.get('needs_to_manifest') or '').replace('\n', ' ').replace('|', '\\|')
    if len(summ) > 260:
        summ = summ[:257] + '...'
    if len(need) > 200:
        need = need[:197] + '...'
    if os.path.exists(d + 'expect.txt'):
        caught = '`' + open(d + 'expect.txt').read().strip().replace('\n', '`, `') + '`'
    elif os.path.exists(d + 'detect.txt'):
        caught = '**missed**'
    else:
        caught = 'not run yet'
    sl.append(f'| {name} | {summ} | {need} | {caught} |')
seeds = '\n'.join(sl)

s = open('DESIGN.md').read()
for tag, body in (('STATUS', status), ('FINDINGS', findings), ('SEEDS', seeds)):
    a, b = f'<!-- GENERATED:{tag} -->', f'<!-- /GENERATED:{tag} -->'
    if a in s:
        i, j = s.index(a) + len(a), s.index(b)
        s = s[:i] + '\n' + body + '\n' + s[j:]
    else:
        print('marker missing:', tag)
open('DESIGN.md', 'w').write(s)
print('tables regenerated')
