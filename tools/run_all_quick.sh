#!/bin/bash
# run every claimed check (quick) and report exit codes; evidence files are rewritten
cd /verif
for id in $(jq -r '.checks[].property_id' MANIFEST.json); do
  t0=$(date +%s); ./check $id quick > /var/tmp/quick_$id.log 2>&1; rc=$?
  echo "$id exit=$rc $(( $(date +%s)-t0 ))s $(grep '^govc' /var/tmp/quick_$id.log | cut -c1-120)"
done
