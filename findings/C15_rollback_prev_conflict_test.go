package rest

// Demonstration for the C15 candidate finding (obligation
// rest.GatewayRegistry.rollbackDatabaseConfig/post/own-cp-from-config): rollbackDatabaseConfig without a
// PreviousVersion rebuilds the entry from the config document and only checks the *current* versions of the other
// databases (getCollectionConflicts), not their in-flight previous versions (getPreviousConflicts, which
// upsertDatabaseConfig does check). If the other database's update is then rolled back too, two live databases own
// the same collection in the registry.

import (
	"testing"

	"github.com/couchbase/sync_gateway/base"
)

func TestGovcC15RollbackPrevConflict(t *testing.T) {
	ctx := base.TestCtx(t)
	r := &GatewayRegistry{ConfigGroups: map[string]*RegistryConfigGroup{}}
	r.ConfigGroups["default"] = &RegistryConfigGroup{Databases: map[string]*RegistryDatabase{
		// db1: registry says version 3-a with s1.c2, no update in flight
		"db1": {RegistryDatabaseVersion: RegistryDatabaseVersion{Version: "3-a", Scopes: RegistryScopes{"s1": {Collections: []string{"c2"}}}}, MetadataID: "m1"},
		// db2: update in flight, moving from s1.c1 (previous) to s1.c3 (current)
		"db2": {RegistryDatabaseVersion: RegistryDatabaseVersion{Version: "2-b", Scopes: RegistryScopes{"s1": {Collections: []string{"c3"}}}},
			PreviousVersion: &RegistryDatabaseVersion{Version: "1-b", Scopes: RegistryScopes{"s1": {Collections: []string{"c1"}}}}, MetadataID: "m2"},
	}}
	// db1's config document in the bucket is an older one (e.g. restored): version 2-a with s1.c1
	cfg1 := &DatabaseConfig{Version: "2-a", MetadataID: "m1", DbConfig: DbConfig{Name: "db1", Scopes: ScopesConfig{"s1": {Collections: CollectionsConfig{"c1": {}}}}}}

	// an upsert of that config is (rightly) refused: s1.c1 is still held by db2's in-flight previous version
	probe := &GatewayRegistry{ConfigGroups: map[string]*RegistryConfigGroup{"default": {Databases: map[string]*RegistryDatabase{
		"db1": r.ConfigGroups["default"].Databases["db1"], "db2": r.ConfigGroups["default"].Databases["db2"]}}}}
	prevConflicts, upsertErr := probe.upsertDatabaseConfig(ctx, "default", cfg1)
	if upsertErr == nil || len(prevConflicts) != 1 {
		t.Fatalf("expected upsert to be refused with one in-flight conflict, got %v %v", prevConflicts, upsertErr)
	}

	// ... but the rollback path accepts it and leaves db1 valid
	if err := r.rollbackDatabaseConfig(ctx, "default", "db1", cfg1); err != nil {
		t.Fatal(err)
	}
	db1 := r.ConfigGroups["default"].Databases["db1"]
	if db1.IsInvalid() {
		t.Fatalf("db1 marked invalid (would be the safe outcome)")
	}
	// db2's update fails and is rolled back to its previous version
	cfg2 := &DatabaseConfig{Version: "1-b", MetadataID: "m2", DbConfig: DbConfig{Name: "db2", Scopes: ScopesConfig{"s1": {Collections: CollectionsConfig{"c1": {}}}}}}
	if err := r.rollbackDatabaseConfig(ctx, "default", "db2", cfg2); err != nil {
		t.Fatal(err)
	}
	db2 := r.ConfigGroups["default"].Databases["db2"]
	owns := func(d *RegistryDatabase) bool {
		for _, c := range d.Scopes["s1"].Collections {
			if c == "c1" {
				return true
			}
		}
		return false
	}
	if owns(db1) && owns(db2) && !db1.IsInvalid() && !db2.IsInvalid() && !db1.IsDeleted() && !db2.IsDeleted() {
		t.Fatalf("GOVC-REPLAY-VIOLATED: db1 (version %s) and db2 (version %s) both own s1.c1 in the registry", db1.Version, db2.Version)
	}
}
