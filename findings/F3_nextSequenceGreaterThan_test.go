package db

// Demonstration for finding F3 (property C07, obligation
// db.sequenceAllocator.nextSequenceGreaterThan/post/above-floor): when the current batch cannot be
// released (the unused-sequence document write fails) and the shared counter has already been moved
// past the requested floor by another node, nextSequenceGreaterThan handed out a number from the
// old batch, i.e. a number NOT above the floor. Run with:
//   cd /repo && go test -mod=mod -vet=off -count=1 -overlay <ov.json mapping db/zz_f3_test.go to this file> -run TestGovcF3 ./db
// Fails on the tree before the fix commit, passes after.

import (
	"context"
	"errors"
	"testing"

	"github.com/couchbase/sync_gateway/base"
	"github.com/stretchr/testify/require"
)

type f3FailingAddRaw struct {
	base.DataStore
	fail bool
}

func (f *f3FailingAddRaw) AddRaw(ctx context.Context, k string, exp uint32, v []byte) (bool, error) {
	if f.fail {
		return false, errors.New("injected AddRaw failure")
	}
	return f.DataStore.AddRaw(ctx, k, exp, v)
}

func TestGovcF3(t *testing.T) {
	ctx := base.TestCtx(t)
	bucket := base.GetTestBucket(t)
	defer bucket.Close(ctx)
	sgw, err := base.NewSyncGatewayStats()
	require.NoError(t, err)
	dbstats, err := sgw.NewDBStats("", false, false, false, false, nil, nil)
	require.NoError(t, err)
	ds := &f3FailingAddRaw{DataStore: bucket.GetSingleDataStore()}
	a := &sequenceAllocator{datastore: ds, dbStats: dbstats.Database(), sequenceBatchSize: 10, reserveNotify: make(chan struct{}, 50), metaKeys: base.DefaultMetadataKeys}
	// batch 1..10, hand out 1
	seq, _, err := a.nextSequenceGreaterThan(ctx, 0)
	require.NoError(t, err)
	require.Equal(t, uint64(1), seq)
	// another node moves the shared counter to 110
	_, err = ds.Incr(ctx, base.DefaultMetadataKeys.SyncSeqKey(), 100, 100, 0)
	require.NoError(t, err)
	// releasing the rest of the batch fails
	ds.fail = true
	seq, _, err = a.nextSequenceGreaterThan(ctx, 50)
	require.NoError(t, err)
	if !(seq > 50) {
		t.Fatalf("GOVC-REPLAY-VIOLATED: nextSequenceGreaterThan(50) returned %d", seq)
	}
}
