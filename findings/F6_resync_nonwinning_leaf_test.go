package db

// Demonstrations for property C18 (resync equals evaluating the new sync function from scratch).
//
// TestGovcF6 (candidate finding F6, obligation db.DatabaseCollectionWithUser.getResyncedDocument$1/post/leaf-change-counted):
// a document with two conflicting leaves; the new sync function assigns the WINNING leaf the same channel as
// before and the NON-WINNING leaf a different one. getResyncedDocument recomputes the channel set of the
// non-winning leaf in memory (rev.Channels = channels), but `changed` counts the differences of the winning
// revision only, so it returns ErrUpdateCancel and the recomputed set is thrown away: the stored channel set
// of the non-winning leaf (the one authorizeDoc checks a GET ?rev=<that leaf> against) stays the OLD function's.
//
// TestGovcF14 (candidate finding, obligation db.DatabaseCollectionWithUser.getResyncedDocument$1/assert/winner-roles):
// when the new sync function rejects the revision, getResyncedDocument clears `channels` and `access` ("a
// rejected revision is in no channel and grants nothing") but not `roles`: role() grants made before the
// throw are stored in the document's role_access.
//
//   cd /repo && go test -mod=mod -vet=off -count=1 -overlay <ov.json mapping db/zz_f6_test.go to this file> -run 'TestGovcF6|TestGovcF14' ./db

import (
	"testing"

	"github.com/couchbase/sync_gateway/base"
)

func TestGovcF6(t *testing.T) {
	db, ctx := SetupTestDBWithOptions(t, DatabaseContextOptions{AllowConflicts: base.Ptr(true)})
	defer db.Close(ctx)
	collection, ctx := GetSingleDatabaseCollectionWithUser(ctx, t, db)

	if _, err := collection.UpdateSyncFun(ctx, `function(doc){channel(doc.chan);}`); err != nil {
		t.Fatalf("setup: %v", err)
	}
	const docID = "f6doc"
	if _, _, err := collection.PutExistingRevWithBody(ctx, docID, Body{"chan": "A"}, []string{"1-a"}, false, ExistingVersionWithUpdateToHLV); err != nil {
		t.Fatalf("setup: %v", err)
	}
	// two conflicting children of 1-a: 2-b (wins: higher digest) in channel W, 2-a in channel L
	if _, _, err := collection.PutExistingRevWithBody(ctx, docID, Body{"chan": "W"}, []string{"2-b", "1-a"}, false, ExistingVersionWithUpdateToHLV); err != nil {
		t.Fatalf("setup: %v", err)
	}
	if _, _, err := collection.PutExistingRevWithBody(ctx, docID, Body{"chan": "L"}, []string{"2-a", "1-a"}, false, ExistingVersionWithUpdateToHLV); err != nil {
		t.Fatalf("setup: %v", err)
	}
	before, err := collection.GetDocument(ctx, docID, DocUnmarshalAll)
	if err != nil {
		t.Fatalf("setup: %v", err)
	}
	if before.GetRevTreeID() != "2-b" {
		t.Fatalf("setup: winner is %s, expected 2-b", before.GetRevTreeID())
	}
	if !before.History["2-a"].Channels.Contains("L") || len(before.History["2-a"].Channels) != 1 {
		t.Fatalf("setup: stored channels of the non-winning leaf 2-a: %v, expected {L}", before.History["2-a"].Channels)
	}

	// the new sync function: same result for the winner, a different channel for the non-winning leaf
	if _, err := collection.UpdateSyncFun(ctx, `function(doc){ if (doc.chan == "L") { channel("L2"); } else { channel(doc.chan); } }`); err != nil {
		t.Fatalf("setup: %v", err)
	}
	err = collection.ResyncDocument(ctx, docID, getBucketDocument(t, collection.DatabaseCollection, docID), false)
	t.Logf("ResyncDocument returned: %v", err)
	db.WaitForPendingChanges(t)

	// reload from the bucket (bypassing the revision cache)
	after, _, err := collection.getDocWithXattrs(ctx, docID, collection.syncGlobalSyncMouRevSeqNoAndUserXattrKeys(), DocUnmarshalAll)
	if err != nil {
		t.Fatalf("reload: %v", err)
	}
	got := after.History["2-a"].Channels
	t.Logf("stored channels of non-winning leaf 2-a after resync: %v (new sync function says {L2})", got)
	if !(len(got) == 1 && got.Contains("L2")) {
		t.Errorf("F6 CONFIRMED: after a completed resync the non-winning leaf 2-a is still filed under %v; the new sync function assigns it {L2}", got)
	}
}

func TestGovcF14(t *testing.T) {
	db, ctx := setupTestDB(t)
	defer db.Close(ctx)
	collection, ctx := GetSingleDatabaseCollectionWithUser(ctx, t, db)

	if _, err := collection.UpdateSyncFun(ctx, `function(doc){channel(doc.chan); access(doc.user, doc.chan); role(doc.user, "role:r1");}`); err != nil {
		t.Fatalf("setup: %v", err)
	}
	const docID = "f14doc"
	if _, _, err := collection.Put(ctx, docID, Body{"chan": "A", "user": "alice"}); err != nil {
		t.Fatalf("setup: %v", err)
	}
	// the new sync function grants a role and then rejects the document
	if _, err := collection.UpdateSyncFun(ctx, `function(doc){ role(doc.user, "role:r2"); access(doc.user, "B"); channel("B"); throw({forbidden: "not acceptable any more"}); }`); err != nil {
		t.Fatalf("setup: %v", err)
	}
	err := collection.ResyncDocument(ctx, docID, getBucketDocument(t, collection.DatabaseCollection, docID), false)
	t.Logf("ResyncDocument returned: %v", err)
	db.WaitForPendingChanges(t)

	after, _, err := collection.getDocWithXattrs(ctx, docID, collection.syncGlobalSyncMouRevSeqNoAndUserXattrKeys(), DocUnmarshalAll)
	if err != nil {
		t.Fatalf("reload: %v", err)
	}
	t.Logf("after resync: channels=%v access=%v role_access=%v", after.Channels, after.Access, after.RoleAccess)
	for c, rm := range after.Channels {
		if rm == nil {
			t.Errorf("control: rejected revision is still in channel %s", c)
		}
	}
	if len(after.Access) != 0 {
		t.Errorf("control: rejected revision still grants channel access %v", after.Access)
	}
	if len(after.RoleAccess) != 0 {
		t.Errorf("F14 CONFIRMED: the revision is rejected by the new sync function (no channels, no access), yet it grants roles %v", after.RoleAccess)
	}
}
