package auth

// Demonstration for the C11 candidate findings on auth.Authenticator.casUpdatePrincipal (obligations
// auth.Authenticator.casUpdatePrincipal/propagates/Save#1 and .../post/retries-exhausted, also
// auth.Authenticator.DeleteSessionForCookie/post/logout-durable):
//  (a) a Save that fails with an error other than a CAS mismatch is reported as success: `return err` at auth.go:713
//      returns the loop-local err of `updatedPrincipal, err := callback(p)` (auth.go:698), which is nil at that point;
//  (b) after PrincipalUpdateMaxCasRetries CAS mismatches the function returns the outer `err` (auth.go:696), which
//      is never assigned: nil, although nothing was written;
//  (c) DeleteSessionForCookie hands out the expired cookie (REST: 200) although the session document could not be deleted.
// Run with:
//   cd /repo && go test -mod=mod -vet=off -count=1 -overlay <ov.json mapping auth/zz_c11_demo_test.go to this file> -run TestGovcC11 ./auth
// Each test prints GOVC-REPLAY-VIOLATED on the current tree.

import (
	"context"
	"errors"
	"net/http"
	"net/http/httptest"
	"testing"
	"time"

	sgbucket "github.com/couchbase/sg-bucket"
	"github.com/couchbase/sync_gateway/base"
	"github.com/stretchr/testify/require"
)

type c11FailingStore struct {
	base.DataStore
	failWriteCas error // returned by WriteCas when non-nil
	failDelete   error
}

func (f *c11FailingStore) WriteCas(ctx context.Context, k string, exp uint32, cas uint64, v any, opt sgbucket.WriteOptions) (uint64, error) {
	if f.failWriteCas != nil {
		return 0, f.failWriteCas
	}
	return f.DataStore.WriteCas(ctx, k, exp, cas, v, opt)
}

func (f *c11FailingStore) Delete(ctx context.Context, k string) error {
	if f.failDelete != nil {
		return f.failDelete
	}
	return f.DataStore.Delete(ctx, k)
}

func TestGovcC11SwallowedSaveError(t *testing.T) {
	ctx := base.TestCtx(t)
	bucket := base.GetTestBucket(t)
	defer bucket.Close(ctx)
	ds := &c11FailingStore{DataStore: bucket.GetSingleDataStore()}
	a := NewTestAuthenticator(t, ds, nil, DefaultAuthenticatorOptions(ctx))

	user, err := a.NewUser("alice", "letmein", base.Set{})
	require.NoError(t, err)
	require.NoError(t, user.SetEmail("old@example.org"))
	require.NoError(t, a.Save(user))

	// the bucket now refuses writes with a non-CAS error (e.g. temporary failure)
	ds.failWriteCas = errors.New("injected WriteCas failure")
	user, err = a.GetUser("alice")
	require.NoError(t, err)
	err = a.UpdateUserEmail(user, "new@example.org")
	ds.failWriteCas = nil

	stored, gerr := a.GetUser("alice")
	require.NoError(t, gerr)
	if err == nil && stored.Email() != "new@example.org" {
		t.Fatalf("GOVC-REPLAY-VIOLATED: UpdateUserEmail returned nil but the stored e-mail is still %q", stored.Email())
	}
}

func TestGovcC11RetriesExhausted(t *testing.T) {
	ctx := base.TestCtx(t)
	bucket := base.GetTestBucket(t)
	defer bucket.Close(ctx)
	ds := &c11FailingStore{DataStore: bucket.GetSingleDataStore()}
	a := NewTestAuthenticator(t, ds, nil, DefaultAuthenticatorOptions(ctx))

	user, err := a.NewUser("bob", "letmein", base.Set{})
	require.NoError(t, err)
	require.NoError(t, user.SetEmail("old@example.org"))
	require.NoError(t, a.Save(user))

	// every write loses the CAS race
	ds.failWriteCas = sgbucket.CasMismatchErr{Expected: 1, Actual: 2}
	require.True(t, base.IsCasMismatch(ds.failWriteCas))
	user, err = a.GetUser("bob")
	require.NoError(t, err)
	err = a.UpdateUserEmail(user, "new@example.org")
	ds.failWriteCas = nil

	stored, gerr := a.GetUser("bob")
	require.NoError(t, gerr)
	if err == nil && stored.Email() != "new@example.org" {
		t.Fatalf("GOVC-REPLAY-VIOLATED: UpdateUserEmail returned nil after %d lost CAS races; stored e-mail is still %q", PrincipalUpdateMaxCasRetries, stored.Email())
	}
}

func TestGovcC11LogoutNotDurable(t *testing.T) {
	ctx := base.TestCtx(t)
	bucket := base.GetTestBucket(t)
	defer bucket.Close(ctx)
	ds := &c11FailingStore{DataStore: bucket.GetSingleDataStore()}
	a := NewTestAuthenticator(t, ds, nil, DefaultAuthenticatorOptions(ctx))

	user, err := a.NewUser("carol", "letmein", base.Set{})
	require.NoError(t, err)
	require.NoError(t, a.Save(user))
	session, err := a.CreateSession(ctx, user, 2*time.Hour, false)
	require.NoError(t, err)

	rq := httptest.NewRequest(http.MethodDelete, "http://localhost/db/_session", nil)
	rq.AddCookie(a.MakeSessionCookie(session, false, false, http.SameSiteDefaultMode))
	ds.failDelete = errors.New("injected Delete failure")
	cookie := a.DeleteSessionForCookie(ctx, rq) // rest/session_api.go:124-129: non-nil cookie => HTTP 200
	ds.failDelete = nil

	_, su, _ := a.GetSession(session.ID)
	if cookie != nil && su != nil {
		t.Fatalf("GOVC-REPLAY-VIOLATED: logout reported success (expired cookie returned) but session %s still authenticates %q", session.ID, su.Name())
	}
}
