package db

// Demonstration for a candidate finding of property C09 ("a document written directly to the bucket by another
// application becomes visible through the gateway ... as a new revision": an external DELETE must be imported as
// a tombstone). Clause (proposed for db.DatabaseCollectionWithUser.OnDemandImportForWrite, fails):
//   before[delete-as-tombstone] call ImportDoc#1 $3 == doc && (doc.Deleted ==> $4.isDelete)
// OnDemandImportForWrite decides `isDelete` from `doc.Body(ctx) == nil`, but Document.UnmarshalWithXattrs gives a
// tombstone that still has its _sync xattr an EMPTY, non-nil body (`doc._body = Body{}; doc._rawBody = "{}";
// doc.Deleted = true`), so the test is never true and isDelete falls back to the `deleted` flag of the INCOMING
// gateway write. A non-delete gateway write on top of a not-yet-imported external delete therefore imports the
// delete as a LIVE revision with body {}, writes {} back to the bucket (the deleted document is resurrected as an
// empty document) and then refuses the write with 409 "Document exists".
// The read path (OnDemandImportForGet: isDelete := rawDoc == nil) imports the same delete as a tombstone (control).
//   cd /repo && go test -mod=mod -vet=off -count=1 -overlay <ov.json mapping db/zz_c09_extdel_test.go to this file> -run TestGovcC09ExternalDeleteImportedLive ./db

import (
	"testing"

	"github.com/couchbase/sync_gateway/base"
)

func TestGovcC09ExternalDeleteImportedLive(t *testing.T) {
	db, ctx := SetupTestDBWithOptions(t, DatabaseContextOptions{}) // auto-import off
	defer db.Close(ctx)
	collection, ctx := GetSingleDatabaseCollectionWithUser(ctx, t, db)
	ds := collection.GetCollectionDatastore()

	// SDK write imported on demand (revision 1-...), then an external (SDK) delete that nobody has imported yet.
	prepare := func(docKey string) (rev1 string) {
		if _, err := ds.WriteCas(ctx, docKey, 0, 0, []byte(`{"k":"v"}`), 0); err != nil {
			t.Fatalf("setup: %v", err)
		}
		doc, err := collection.GetDocument(ctx, docKey, DocUnmarshalAll)
		if err != nil {
			t.Fatalf("setup: first import: %v", err)
		}
		if err := ds.Delete(ctx, docKey); err != nil {
			t.Fatalf("setup: SDK delete: %v", err)
		}
		raw, xattrs, _, err := ds.GetWithXattrs(ctx, docKey, []string{base.SyncXattrName})
		if err != nil || raw != nil || len(xattrs[base.SyncXattrName]) == 0 {
			t.Fatalf("setup: expected a tombstone that keeps its _sync xattr (body=%q, err=%v)", raw, err)
		}
		return doc.GetRevTreeID()
	}
	importedChild := func(docKey, rev1, notThis string) (string, *RevInfo) {
		syncData, _, err := collection.GetDocSyncDataNoImport(ctx, docKey, DocUnmarshalAll)
		if err != nil {
			t.Fatalf("reading sync data of %s: %v", docKey, err)
		}
		for id, info := range syncData.History {
			if info.Parent == rev1 && id != notThis {
				return id, info
			}
		}
		return "", nil
	}

	// Control: the read path imports the external delete as a tombstone.
	ctlKey := t.Name() + "_get"
	ctlRev1 := prepare(ctlKey)
	_, _ = collection.GetDocument(ctx, ctlKey, DocUnmarshalAll)
	if id, info := importedChild(ctlKey, ctlRev1, ""); info == nil || !info.Deleted {
		t.Fatalf("setup (control): the read path did not import the external delete as a tombstone (rev %q)", id)
	}

	// A gateway PUT (not a delete) on top of the un-imported external delete.
	docKey := t.Name() + "_put"
	rev1 := prepare(docKey)
	newRev, _, putErr := collection.Put(ctx, docKey, Body{"k": "v2"})
	t.Logf("Put on top of the external delete: rev=%q err=%v", newRev, putErr)
	rawAfter, _, _, _ := ds.GetWithXattrs(ctx, docKey, []string{base.SyncXattrName})

	id, info := importedChild(docKey, rev1, newRev)
	if info == nil {
		t.Fatalf("setup: no revision was created by the import of the external delete")
	}
	if !info.Deleted {
		t.Fatalf("GOVC-REPLAY-VIOLATED: the external delete of %s was imported by the write path as LIVE revision %s (deleted=false); bucket body is now %q; the PUT returned: %v", rev1, id, rawAfter, putErr)
	}
}
