package db

import (
	"testing"

	"github.com/stretchr/testify/require"
)

// C04 candidate finding: two distinct revision ids with equal (generation, digest) keys tie in compareRevIDs,
// so the winner among them depends on Go's map iteration order.
func TestC04WinnerTieNonCanonicalRevIDs(t *testing.T) {
	db, ctx := setupTestDBAllowConflicts(t)
	defer db.Close(ctx)
	collection, ctx := GetSingleDatabaseCollectionWithUser(ctx, t, db)

	_, _, err := collection.PutExistingRevWithBody(ctx, "doc1", Body{"v": "a"}, []string{"1-abc"}, false, ExistingVersionWithUpdateToHLV)
	require.NoError(t, err)
	_, _, err = collection.PutExistingRevWithBody(ctx, "doc1", Body{"v": "b"}, []string{"01-abc"}, false, ExistingVersionWithUpdateToHLV)
	t.Logf("second put (01-abc) err=%v", err)
	require.NoError(t, err)
	doc, err := collection.GetDocument(ctx, "doc1", DocUnmarshalAll)
	require.NoError(t, err)
	t.Logf("leaves=%v current=%s cmp=%d", doc.History.GetLeaves(), doc.GetRevTreeID(), compareRevIDs(ctx, "1-abc", "01-abc"))
	seen := map[string]int{}
	for i := 0; i < 200; i++ {
		w, _, _ := doc.History.winningRevision(ctx)
		seen[w]++
	}
	t.Logf("winners over 200 evaluations of the same tree: %v", seen)
	require.Len(t, seen, 1, "winner must be a function of the tree")
}
