package db

import (
	"testing"

	"github.com/couchbase/sync_gateway/base"
)

// C16 candidate finding: Put on a key whose value is already memStateSized rewrites itemBytes without adjusting the gauge.
func TestC16PutTwiceDrift(t *testing.T) {
	cacheHitCounter, cacheMissCounter, cacheNumItems, getDocumentCounter, getRevisionCounter, memoryBytesCounted := base.SgwIntStat{}, base.SgwIntStat{}, base.SgwIntStat{}, base.SgwIntStat{}, base.SgwIntStat{}, base.SgwIntStat{}
	backingStoreMap := CreateTestSingleBackingStoreMap(&testBackingStore{nil, &getDocumentCounter, &getRevisionCounter}, testCollectionID)
	cacheOptions := &RevisionCacheOptions{MaxItemCount: 10, MaxBytes: 0}
	revCacheStats := revisionCacheStats{cacheHitStat: &cacheHitCounter, cacheMissStat: &cacheMissCounter, cacheNumItemsStat: &cacheNumItems, cacheMemoryStat: &memoryBytesCounted}
	mc := newCacheMemoryController(0, revCacheStats.cacheMemoryStat)
	cache := NewLRURevisionCache(cacheOptions, backingStoreMap, revCacheStats, mc)
	ctx := base.TestCtx(t)

	cv := Version{Value: 123, SourceID: "test"}
	mk := func(body string) DocumentRevision {
		return DocumentRevision{DocID: "doc1", RevID: "1-abc", CV: &cv, BodyBytes: []byte(body), History: Revisions{RevisionsStart: 1, RevisionsIds: []string{"abc"}}}
	}
	if err := cache.Put(ctx, mk(`{"a":1}`), testCollectionID); err != nil {
		t.Fatal(err)
	}
	after1 := memoryBytesCounted.Value()
	if err := cache.Put(ctx, mk(`{"a":1,"padding":"xxxxxxxxxxxxxxxxxxxxxxxxxxxxxxxxxxxxxxxxxxxxxxxxxxxxxxxxxxxxxxxx"}`), testCollectionID); err != nil {
		t.Fatal(err)
	}
	after2 := memoryBytesCounted.Value()
	docRev, found := cache.Peek(ctx, "doc1", cv.String(), testCollectionID)
	t.Logf("after first Put: stat=%d; after second Put: stat=%d; served body=%s found=%v items=%d", after1, after2, docRev.BodyBytes, found, cacheNumItems.Value())
	cache.Remove(ctx, "doc1", cv.String(), testCollectionID)
	t.Logf("after Remove (cache empty, items=%d): reported bytes=%d shard gauge=%d", cacheNumItems.Value(), memoryBytesCounted.Value(), mc.bytesInUseForShard.Load())
	if memoryBytesCounted.Value() != 0 {
		t.Fatalf("C16 VIOLATION: cache emptied but reported byte total is %d (expected 0)", memoryBytesCounted.Value())
	}
}

// Side observation (precondition `cv` of the Put contract): Validate accepts a non-nil but EMPTY CV; Put then panics.
func TestC16PutEmptyCVPanics(t *testing.T) {
	cacheHitCounter, cacheMissCounter, cacheNumItems, getDocumentCounter, getRevisionCounter, memoryBytesCounted := base.SgwIntStat{}, base.SgwIntStat{}, base.SgwIntStat{}, base.SgwIntStat{}, base.SgwIntStat{}, base.SgwIntStat{}
	backingStoreMap := CreateTestSingleBackingStoreMap(&testBackingStore{nil, &getDocumentCounter, &getRevisionCounter}, testCollectionID)
	cacheOptions := &RevisionCacheOptions{MaxItemCount: 10, MaxBytes: 0}
	revCacheStats := revisionCacheStats{cacheHitStat: &cacheHitCounter, cacheMissStat: &cacheMissCounter, cacheNumItemsStat: &cacheNumItems, cacheMemoryStat: &memoryBytesCounted}
	cache := NewLRURevisionCache(cacheOptions, backingStoreMap, revCacheStats, newCacheMemoryController(0, revCacheStats.cacheMemoryStat))
	ctx := base.TestCtx(t)
	defer func() {
		if r := recover(); r != nil {
			t.Fatalf("Put with an empty (non-nil) CV passed Validate and panicked: %v", r)
		}
	}()
	err := cache.Put(ctx, DocumentRevision{DocID: "doc1", RevID: "1-abc", CV: &Version{}, BodyBytes: []byte(`{}`), History: Revisions{RevisionsStart: 1, RevisionsIds: []string{"abc"}}}, testCollectionID)
	t.Logf("Put returned %v", err)
}
