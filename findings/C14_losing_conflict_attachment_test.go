package db

// Demonstration for property C14 (attachments live exactly as long as a leaf revision needs them).
//
// TestGovcC14LosingConflict (candidate finding, obligation
// db.DatabaseCollectionWithUser.storeOldBodyInRevTreeAndUpdateCurrent/post/winner-attachments-kept): a document whose winning revision 2-b carries an attachment;
// a conflicting revision 2-a (same parent 1-a, no attachments) is then added and LOSES the winner comparison.
// storeOldBodyInRevTreeAndUpdateCurrent assigns doc.SetAttachments(newDoc.Attachments()) unconditionally, i.e.
// also when the new revision is not the winner, so the document's attachment metadata becomes that of the
// losing revision (empty). The post-write leaf set (getAttachmentIDsForLeafRevisions) is then computed from
// doc.Attachments() (empty) and from the leaves flagged HasAttachments (2-b was never stored as a non-winning
// body, so it is not flagged): the attachment of the still-winning leaf 2-b is in previousAttachments but not
// in leafAttachments and its data is deleted from the bucket.
//
//   cd /repo && go test -mod=mod -vet=off -count=1 -overlay <ov.json mapping db/zz_c14_test.go to this file> -run 'TestGovcC14' ./db

import (
	"testing"

	"github.com/couchbase/sync_gateway/base"
)

func TestGovcC14LosingConflict(t *testing.T) {
	db, ctx := SetupTestDBWithOptions(t, DatabaseContextOptions{AllowConflicts: base.Ptr(true)})
	defer db.Close(ctx)
	collection, ctx := GetSingleDatabaseCollectionWithUser(ctx, t, db)
	// rosmar reports cross-cluster versioning as enabled, which switches the removal of obsolete attachments off
	// altogether; model a Couchbase Server bucket without enableCrossClusterVersioning (as import_test.go does)
	db.CachedCCVEnabled.Store(false)

	const docID = "c14doc"
	if _, _, err := collection.PutExistingRevWithBody(ctx, docID, Body{"v": 1}, []string{"1-a"}, false, ExistingVersionWithUpdateToHLV); err != nil {
		t.Fatalf("setup 1-a: %v", err)
	}
	// 2-b: child of 1-a with an attachment "x.txt" = "hello" (aGVsbG8=)
	body2b := Body{"v": 2, BodyAttachments: map[string]any{"x.txt": map[string]any{"data": "aGVsbG8="}}}
	if _, _, err := collection.PutExistingRevWithBody(ctx, docID, body2b, []string{"2-b", "1-a"}, false, ExistingVersionWithUpdateToHLV); err != nil {
		t.Fatalf("setup 2-b: %v", err)
	}
	digest := Sha1DigestKey([]byte("hello"))
	key := MakeAttachmentKey(AttVersion2, docID, digest)
	if data, err := collection.GetAttachment(ctx, key); err != nil || string(data) != "hello" {
		t.Fatalf("setup: attachment of 2-b not stored: %q, %v", data, err)
	}
	before, err := collection.GetDocument(ctx, docID, DocUnmarshalAll)
	if err != nil {
		t.Fatalf("setup: %v", err)
	}
	t.Logf("before: winner %s, attachments %v", before.GetRevTreeID(), before.Attachments())

	// 2-a: conflicting child of 1-a without attachments; it loses against 2-b
	if _, _, err := collection.PutExistingRevWithBody(ctx, docID, Body{"v": 3}, []string{"2-a", "1-a"}, false, ExistingVersionWithUpdateToHLV); err != nil {
		t.Fatalf("put 2-a: %v", err)
	}
	after, _, err := collection.getDocWithXattrs(ctx, docID, collection.syncGlobalSyncMouRevSeqNoAndUserXattrKeys(), DocUnmarshalAll)
	if err != nil {
		t.Fatalf("reload: %v", err)
	}
	t.Logf("after: winner %s, leaves %v, attachments %v", after.GetRevTreeID(), after.History.GetLeaves(), after.Attachments())
	if after.GetRevTreeID() != "2-b" {
		t.Fatalf("setup: winner is %s, expected 2-b", after.GetRevTreeID())
	}
	if _, ok := after.Attachments()["x.txt"]; !ok {
		t.Errorf("C14 CONFIRMED (metadata): the winning leaf 2-b was written with attachment x.txt; after the losing conflict 2-a the document's attachment metadata is %v", after.Attachments())
	}
	data, err := collection.GetAttachment(ctx, key)
	t.Logf("attachment data after the losing write: %q, err=%v", data, err)
	if err != nil || string(data) != "hello" {
		t.Errorf("C14 CONFIRMED (data): the attachment data of the still-winning leaf 2-b was removed by the write of the losing conflict 2-a: %q, %v", data, err)
	}
}
