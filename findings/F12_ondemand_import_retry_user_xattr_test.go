package db

// Demonstration for candidate finding F10 (property C09, obligation
// db.DatabaseCollectionWithUser.importDoc$1/post/xattr-only-no-rev):
// a change of the user xattr ONLY (body untouched) must be imported without creating a new revision
// (rest/importuserxattrtest TestUserXattrAvoidRevisionIDGeneration asserts this for the ordinary path; step 2
// below is the same control for on-demand import). When an on-demand import loses its CAS race against a
// second user-xattr-only SDK mutation, the retry of the import callback runs with doc.Cas != existingDoc.Cas
// in mode ImportOnDemand, replaces existingDoc by a BucketDocument without Xattrs, and
// `len(existingDoc.Xattrs[userXattrKey]) == 0` then forces shouldGenerateNewRev = true: a new revision
// (generation 2, same body) is created although the body never changed.
//   cd /repo && go test -mod=mod -vet=off -count=1 -overlay <ov.json mapping db/zz_f10_test.go to this file> -run TestGovcF10 ./db

import (
	"sync/atomic"
	"testing"

	"github.com/couchbase/sync_gateway/base"
)

func TestGovcF10(t *testing.T) {
	const xattrKey = "myXattr"
	testBucket := base.GetTestBucket(t)
	leakyBucket := base.NewLeakyBucket(testBucket, base.LeakyBucketConfig{})
	cacheOptions := DefaultCacheOptions()
	db, ctx := SetupTestDBForBucketWithOptions(t, leakyBucket, DatabaseContextOptions{CacheOptions: &cacheOptions, UserXattrKey: xattrKey})
	defer db.Close(ctx)
	collection, ctx := GetSingleDatabaseCollectionWithUser(ctx, t, db)
	if collection.UserXattrKey() != xattrKey {
		t.Fatalf("setup: user xattr key not configured")
	}
	ds := collection.GetCollectionDatastore()
	leakyDS, ok := base.AsLeakyDataStore(ds)
	if !ok {
		t.Fatalf("setup: not a leaky datastore")
	}
	docKey := t.Name()

	setUserXattr := func(val string) {
		_, cas, err := ds.GetRaw(ctx, docKey)
		if err != nil {
			t.Fatalf("setup: GetRaw: %v", err)
		}
		if _, err = ds.UpdateXattrs(ctx, docKey, 0, cas, map[string][]byte{xattrKey: []byte(val)}, nil); err != nil {
			t.Fatalf("setup: UpdateXattrs: %v", err)
		}
	}

	// 1. SDK write, imported on demand by a read: revision 1-...
	if _, err := ds.WriteCas(ctx, docKey, 0, 0, []byte(`{"k":"v"}`), 0); err != nil {
		t.Fatalf("setup: %v", err)
	}
	doc, err := collection.GetDocument(ctx, docKey, DocUnmarshalAll)
	if err != nil {
		t.Fatalf("setup: first import: %v", err)
	}
	rev1 := doc.GetRevTreeID()
	if rev1 == "" {
		t.Fatalf("setup: no revision after first import")
	}

	// 2. Control: a user-xattr-only SDK mutation, imported on demand without a race: no new revision.
	setUserXattr(`"A"`)
	doc, err = collection.GetDocument(ctx, docKey, DocUnmarshalAll)
	if err != nil {
		t.Fatalf("setup: control import: %v", err)
	}
	if doc.GetRevTreeID() != rev1 {
		t.Fatalf("setup (control): user-xattr-only change without a race created a new revision: %s -> %s", rev1, doc.GetRevTreeID())
	}
	if doc.Crc32cUserXattr == "" {
		t.Fatalf("setup (control): the user xattr change was not imported")
	}

	// 3. Another user-xattr-only SDK mutation ("B") ...
	setUserXattr(`"B"`)
	// ... and, while its on-demand import is about to write, a third one ("C"): the import's CAS write fails and
	// the callback is re-run on the reloaded document.
	var fired atomic.Bool
	leakyDS.SetUpdateCallback(func(key string) {
		if key != docKey || !fired.CompareAndSwap(false, true) {
			return
		}
		setUserXattr(`"C"`)
	})
	doc, err = collection.GetDocument(ctx, docKey, DocUnmarshalAll)
	leakyDS.SetUpdateCallback(nil)
	if err != nil {
		t.Fatalf("setup: raced import: %v", err)
	}
	if !fired.Load() {
		t.Fatalf("setup: the racing mutation was never injected")
	}

	if doc.GetRevTreeID() != rev1 {
		t.Fatalf("GOVC-REPLAY-VIOLATED: only the user xattr changed (body identical), but the on-demand import retry created a new revision: %s -> %s", rev1, doc.GetRevTreeID())
	}
}
