package db

// Demonstration for property C19, obligation db.validateBlipBody/post/reserved-rejected (found by the clause
// "the byte search may skip the parse only if the JSON text does not have that top-level member"):
// validateBlipBody pre-filtered with bytes.Contains(rawBody, `"<prop>"`). A JSON member name may be written with
// escapes ("\u005fid" is the key "_id"), so the needle is not contained in every JSON text that has the reserved
// top-level key: the reserved property was not rejected and was stored with the revision.
// Run with:
//   cd /repo && go test -mod=mod -vet=off -count=1 -overlay <ov.json mapping db/zz_c19_blip_test.go to this file> -run TestGovcC19BlipReservedKeyEscaped ./db
// Fails on the tree before the fix commit, passes after.

import (
	"testing"
)

func TestGovcC19BlipReservedKeyEscaped(t *testing.T) {
	db, ctx := setupTestDB(t)
	defer db.Close(ctx)

	for _, raw := range []string{`{"_id":"x","k":1}`, `{"\u005fid":"x","k":1}`, `{"\u005frev":"9-abc","k":1}`, `{"_delete\u0064":true,"k":1}`, `{"\u005fsync":{},"k":1}`} {
		newDoc := &Document{ID: "doc"}
		newDoc.UpdateBodyBytes([]byte(raw))
		err := validateBlipBody(ctx, []byte(raw), newDoc)
		var keys []string
		for k := range newDoc.Body(ctx) {
			keys = append(keys, k)
		}
		if err == nil {
			t.Errorf("GOVC-REPLAY-VIOLATED: validateBlipBody(%s) = nil although the parsed top-level keys are %v", raw, keys)
		}
	}
	// control: escapes elsewhere do not cause a rejection
	raw := `{"k":"a\u005fid","_idx":1}`
	newDoc := &Document{ID: "doc"}
	newDoc.UpdateBodyBytes([]byte(raw))
	if err := validateBlipBody(ctx, []byte(raw), newDoc); err != nil {
		t.Errorf("body without reserved keys rejected: %v", err)
	}
}
