package db

// Demonstration for the C17 candidate finding "push side records the already-known notification of a changes batch
// before its expected notification" (obligation db.BlipSyncContext.handleChangesResponse/assert/expected-before-known).
// The calls below are exactly the calls BlipSyncContext.handleChangesResponse makes on the Checkpointer (through
// sgr2PushAlreadyKnownSeqsCallback / sgr2PushAddExpectedSeqsCallback, db/blip_sync_context.go:417-424), with one
// checkpoint tick (Checkpointer.Start goroutine -> CheckpointNow -> _updateCheckpointLists) between them.
// Run: copy into /repo/db (or -overlay) and `go test -run TestGovcC17PushKnownBeforeExpected ./db`.

import (
	"testing"

	"github.com/couchbase/sync_gateway/base"
	"github.com/couchbase/sync_gateway/testing/require"
)

func TestGovcC17PushKnownBeforeExpected(t *testing.T) {
	c := &Checkpointer{
		ctx:                            base.TestCtx(t),
		expectedSeqs:                   make([]SequenceID, 0),
		processedSeqs:                  make(map[SequenceID]struct{}),
		idAndRevLookup:                 make(map[IDAndRev]SequenceID),
		expectedSeqCompactionThreshold: defaultExpectedSeqCompactionThreshold,
		stats: CheckpointerStats{
			ExpectedSequenceLen:             &base.SgwIntStat{},
			ExpectedSequenceLenPostCleanup:  &base.SgwIntStat{},
			ProcessedSequenceLen:            &base.SgwIntStat{},
			ProcessedSequenceLenPostCleanup: &base.SgwIntStat{},
		},
	}
	tick := func() *SequenceID {
		c.lock.Lock()
		defer c.lock.Unlock()
		return c._updateCheckpointLists() // what CheckpointNow hands to _setCheckpoints
	}

	// changes batch [seq 5: peer wants it, seq 6: peer already has it]. The loop of handleChangesResponse has sent
	// the rev for seq 5 (sendRevision); no acknowledgement yet. Then, line 417:
	c.AddAlreadyKnownSeq(SequenceID{Seq: 6})
	// the checkpoint ticker fires here
	persisted := tick()
	// line 422:
	c.AddExpectedSeqs(SequenceID{Seq: 5})

	require.NotNil(t, persisted)
	t.Logf("persisted checkpoint: %v; seq 5 was sent, never acknowledged, and not yet announced to the checkpointer", persisted)
	require.Falsef(t, SequenceID{Seq: 5}.Before(*persisted), "checkpoint %v is ahead of seq 5 of the same batch, which has not been processed", persisted)
}
