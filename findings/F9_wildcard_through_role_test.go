package auth

// Demonstration for finding F9 (property C02, obligations
// auth.userImpl.AuthorizeAnyCollectionChannel/post/granted-if-wildcard-default and
// db.DatabaseCollectionWithUser.authorizeUserForChannels/post/authorized-if-wildcard-default):
// a user who holds the all-channels wildcard "*" only through a role was refused (403) a revision that is
// in no channel in the default collection, although the same user is granted it in a named collection
// and sees every channel through the role. Fails before the fix commit, passes after.
//   cd /repo && go test -mod=mod -vet=off -count=1 -overlay <ov.json mapping auth/zz_f9_test.go to this file> -run TestGovcF9 ./auth

import (
	"testing"

	"github.com/couchbase/sync_gateway/base"
	ch "github.com/couchbase/sync_gateway/channels"
)

func TestGovcF9(t *testing.T) {
	star := ch.AtSequence(base.SetOf(ch.UserStarChannel), 1)
	role := &roleImpl{Name_: "r", Channels_: star,
		CollectionsAccess: map[string]map[string]*CollectionAccess{"s": {"c": {Channels_: star}}}}
	user := &userImpl{roleImpl: roleImpl{Name_: "u", Channels_: ch.TimedSet{},
		CollectionsAccess: map[string]map[string]*CollectionAccess{"s": {"c": {Channels_: ch.TimedSet{}}}}},
		roles: []Role{role}}
	seesStar, _ := user.CanSeeCollectionChannel(base.DefaultScope, base.DefaultCollection, ch.UserStarChannel)
	if !seesStar {
		t.Fatalf("setup: user should see * through the role")
	}
	if err := user.AuthorizeAnyCollectionChannel("s", "c", base.Set{}); err != nil {
		t.Fatalf("named collection refused: %v", err)
	}
	if err := user.AuthorizeAnyCollectionChannel(base.DefaultScope, base.DefaultCollection, base.Set{}); err != nil {
		t.Fatalf("GOVC-REPLAY-VIOLATED: default collection, revision in no channel, wildcard through role: %v", err)
	}
}
