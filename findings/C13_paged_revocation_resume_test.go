package rest

// Demonstration for the C13 finding "a revocation row of a document that was updated after the revocation is handed
// out with a plain sequence token, so a paged (or interrupted) pull that resumes from it never revokes the rest of the
// channel" (obligation db.DatabaseCollectionWithUser.buildRevokedFeed$1/assert/resumable).
//
// buildRevokedFeed stamps every revocation row with SequenceID{Seq: document sequence, TriggeredBy: revocation
// sequence} (db/changes.go:311-314). SequenceID.String() (db/sequence_id.go:60-72) prints the compound form
// "TriggeredBy:Seq" only when Seq < TriggeredBy and otherwise drops TriggeredBy. RevokedCollectionChannels
// (auth/user.go:323/340/372) reports a channel only if its history entry ends after the resume position
// (EndSeq > checkSeq) or exactly at the resumed TriggeredBy. A row with Seq > TriggeredBy therefore goes out as the
// plain "Seq" >= the revocation sequence, and the next pull does not revoke the channel any more.
//
// Sequence: alice holds channels A, B; a1, a2, a3 in A (seqs 2, 3, 4); pull since=0 (last_seq 4). Channel A is taken
// from alice (seq 5). a1, a2, a3 are updated, still in A (seqs 6, 7, 8). alice pulls with revocations=true&limit=1,
// resuming from each last_seq: pull since=4 -> one row {seq "6", a1, revoked} (internally 5:6), last_seq "6";
// pull since=6 -> no rows. a2 and a3 are never announced as revoked although alice cannot read them.
// Run: copy into /repo/rest (or -overlay) and `go test -vet=off -run TestGovcC13PagedRevocationResume ./rest`.

import (
	"fmt"
	"net/http"
	"net/url"
	"testing"

	"github.com/couchbase/sync_gateway/db"
)

func TestGovcC13PagedRevocationResume(t *testing.T) {
	defer db.SuspendSequenceBatching()()
	rt := NewRestTester(t, &RestTesterConfig{SyncFn: `function(doc, oldDoc) {channel(doc.channels);}`})
	defer rt.Close()
	const username = "alice"
	rt.CreateUser(username, []string{"A", "B"})
	v1 := rt.PutDoc("a1", `{"channels":["A"]}`)
	v2 := rt.PutDoc("a2", `{"channels":["A"]}`)
	v3 := rt.PutDoc("a3", `{"channels":["A"]}`)
	rt.WaitForPendingChanges()
	changes := rt.GetChanges("/{{.keyspace}}/_changes?since=0&revocations=true", username)
	held := map[string]bool{}
	for _, e := range changes.Results {
		if e.ID == "a1" || e.ID == "a2" || e.ID == "a3" {
			held[e.ID] = true
		}
	}
	if len(held) != 3 {
		t.Fatalf("setup: expected the client to receive a1, a2, a3, got %v", held)
	}
	since := changes.Last_Seq.String()

	// channel A is taken from alice, then the three documents are updated (they stay in A)
	resp := rt.SendAdminRequest(http.MethodPut, "/{{.db}}/_user/"+username, GetUserPayload(t, "", RestTesterDefaultUserPassword, "", rt.GetSingleDataStore(), []string{"B"}, nil))
	RequireStatus(t, resp, http.StatusOK)
	_ = rt.UpdateDoc("a1", v1, `{"channels":["A"],"v":2}`)
	_ = rt.UpdateDoc("a2", v2, `{"channels":["A"],"v":2}`)
	_ = rt.UpdateDoc("a3", v3, `{"channels":["A"],"v":2}`)
	rt.WaitForPendingChanges()

	// the client pulls page by page, each time resuming from the last position the server handed out
	trace := ""
	for i := 0; i < 10; i++ {
		changes = rt.GetChanges(fmt.Sprintf("/{{.keyspace}}/_changes?since=%s&revocations=true&limit=1", url.QueryEscape(since)), username)
		for _, e := range changes.Results {
			trace += fmt.Sprintf(" [since=%s row seq=%s id=%s revoked=%v]", since, e.Seq.String(), e.ID, e.Revoked)
			if e.Revoked || e.Deleted || len(e.Removed) > 0 {
				delete(held, e.ID)
			}
		}
		since = changes.Last_Seq.String()
		if len(changes.Results) == 0 {
			break
		}
	}

	// alice can read none of the three documents ...
	for _, id := range []string{"a1", "a2", "a3"} {
		r := rt.SendUserRequest(http.MethodGet, "/{{.keyspace}}/"+id, "", username)
		if r.Code == http.StatusOK {
			t.Fatalf("setup: alice can still read %s", id)
		}
	}
	// ... so after the completed pulls the client must hold none of them
	if len(held) != 0 {
		t.Fatalf("GOVC-REPLAY-VIOLATED: after paging the revocation of channel A with limit=1 to the end (last_seq %s) the client still holds %v, which alice cannot read; rows:%s", since, held, trace)
	}
}
