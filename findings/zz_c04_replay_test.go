package db

import (
	"testing"

	"github.com/couchbase/sync_gateway/channels"
	"github.com/stretchr/testify/require"
)

// C04 candidate finding: the Branched flag is computed before pruning; when the write that computes it also
// prunes an old tombstoned branch, the stored document says "branched" although its tree has a single leaf.
func TestC04BranchedFlagStaleAfterTombstonePrune(t *testing.T) {
	db, ctx := setupTestDBAllowConflicts(t)
	defer db.Close(ctx)
	collection, ctx := GetSingleDatabaseCollectionWithUser(ctx, t, db)
	db.RevsLimit = 5

	put := func(body Body, hist ...string) {
		_, _, err := collection.PutExistingRevWithBody(ctx, "doc1", body, hist, false, ExistingVersionWithUpdateToHLV)
		require.NoError(t, err, "add %v", hist)
	}
	put(Body{"v": "1a"}, "1-a")
	put(Body{"v": "2a"}, "2-a", "1-a")
	put(Body{"v": "2b"}, "2-b", "1-a")
	put(Body{"v": "3b", BodyDeleted: true}, "3-b", "2-b")
	prev := "2-a"
	for _, r := range []string{"3-a", "4-a", "5-a", "6-a", "7-a", "8-a", "9-a", "10-a"} {
		put(Body{"v": r}, r, prev)
		prev = r
		doc, err := collection.GetDocument(ctx, "doc1", DocUnmarshalAll)
		require.NoError(t, err)
		leaves := doc.History.GetLeaves()
		winner, branched, inConflict := doc.History.winningRevision(ctx)
		t.Logf("after %s: leaves=%v winner=%s current=%s computed(branched=%v conflict=%v) stored flags: branched=%v conflict=%v deleted=%v",
			r, leaves, winner, doc.GetRevTreeID(), branched, inConflict,
			doc.Flags&channels.Branched != 0, doc.Flags&channels.Conflict != 0, doc.Flags&channels.Deleted != 0)
		require.Equal(t, winner, doc.GetRevTreeID(), "current revision is the winner")
		require.Equal(t, inConflict, doc.Flags&channels.Conflict != 0, "conflict flag agrees with leaves after %s", r)
		require.Equal(t, branched, doc.Flags&channels.Branched != 0, "branched flag agrees with leaves after %s", r)
	}
}
