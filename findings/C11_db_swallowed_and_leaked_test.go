package db

// Demonstrations for the C11 candidate findings in package db:
//  (a) db.Document.persistModifiedRevisionBodies/propagates/persistRevisionBody#1: a failed AddRaw of a new revision body
//      is reported as success (document.go:914-917 returns the err of getInfo, which is nil there), so the document
//      write commits although the revision body it points to (BodyKey) was never stored.
//  (b) db.DatabaseCollectionWithUser.documentUpdateFunc/post/keeps-unused: every error return of documentUpdateFunc is a
//      bare `return` with the named result retUnusedSequences still nil (it assigns the parameter unusedSequences, not
//      the result), and updateAndReturnDoc overwrites its own list with that result (crud.go:2913). A write that
//      loses two CAS races and is then rejected/cancelled releases only its last sequence: the one set aside in the
//      second iteration is neither released nor recorded.
//  (c) db.DatabaseContext.UpdatePrincipal/post/release-on-failed-save (F4) and db.DatabaseContext.DeleteRole/post/release-on-failure:
//      the sequence reserved for a principal update / role delete is not released when the write fails with a non-CAS error.
// Run with:
//   cd /repo && go test -mod=mod -vet=off -count=1 -overlay <ov.json mapping db/zz_c11_demo_test.go to this file> -run TestGovcC11 ./db
// Each test prints GOVC-REPLAY-VIOLATED on the current tree.

import (
	"context"
	"errors"
	"testing"

	"github.com/couchbase/sync_gateway/auth"
	"github.com/couchbase/sync_gateway/base"
	"github.com/stretchr/testify/require"
)

type c11FailingAddRaw struct {
	base.DataStore
}

func (f *c11FailingAddRaw) AddRaw(ctx context.Context, k string, exp uint32, v []byte) (bool, error) {
	return false, errors.New("injected AddRaw failure")
}

func TestGovcC11RevisionBodyWriteSwallowed(t *testing.T) {
	ctx := base.TestCtx(t)
	bucket := base.GetTestBucket(t)
	defer bucket.Close(ctx)
	ds := &c11FailingAddRaw{DataStore: bucket.GetSingleDataStore()}

	doc := NewDocument("doc1")
	doc.History = RevTree{"1-a": &RevInfo{ID: "1-a", BodyKey: "_sync:rb:somekey", Body: []byte(`{"k":"v"}`)}}
	doc.addedRevisionBodies = []string{"1-a"}

	err := doc.persistModifiedRevisionBodies(ctx, ds)
	if err == nil {
		t.Fatalf("GOVC-REPLAY-VIOLATED: persistModifiedRevisionBodies returned nil although AddRaw of the revision body failed (addedRevisionBodies still %v)", doc.addedRevisionBodies)
	}
}

func TestGovcC11UnusedSequenceDroppedOnLateFailure(t *testing.T) {
	ctx := base.TestCtx(t)
	defer SuspendSequenceBatching()()
	var db *Database
	const docID = "c11doc"
	step := 0
	busy := false

	// two concurrent writers hit the document while writer A is between its read and its CAS write
	writeUpdateCallback := func(key string) {
		if key != docID || busy || step == 0 || step > 2 {
			return
		}
		busy = true
		defer func() { busy = false }()
		collection, ctx := GetSingleDatabaseCollectionWithUser(ctx, t, db)
		switch step {
		case 1: // B: another branch 2-b (allowed: allow_conflicts), takes a later sequence than A's first one
			step = 2
			_, _, err := collection.PutExistingRevWithBody(ctx, docID, Body{"w": "B"}, []string{"2-b", "1-a"}, false, ExistingVersionWithUpdateToHLV)
			require.NoError(t, err)
		case 2: // C: the very revision A is pushing arrives from another replicator
			step = 3
			_, _, err := collection.PutExistingRevWithBody(ctx, docID, Body{"w": "A"}, []string{"2-a", "1-a"}, false, ExistingVersionWithUpdateToHLV)
			require.NoError(t, err)
		}
	}

	testBucket := base.GetTestBucket(t)
	leakyBucket := base.NewLeakyBucket(testBucket, base.LeakyBucketConfig{UpdateCallback: writeUpdateCallback})
	cacheOptions := DefaultCacheOptions()
	db, ctx = SetupTestDBForBucketWithOptions(t, leakyBucket, DatabaseContextOptions{CacheOptions: &cacheOptions, AllowConflicts: base.Ptr(true)})
	defer db.Close(ctx)
	collection, ctx := GetSingleDatabaseCollectionWithUser(ctx, t, db)

	_, _, err := collection.PutExistingRevWithBody(ctx, docID, Body{"w": "0"}, []string{"1-a"}, false, ExistingVersionWithUpdateToHLV)
	require.NoError(t, err)
	releasedBefore := db.DbStats.Database().SequenceReleasedCount.Value()

	// A: pushes 2-a. Iteration 1 reserves sA1 and loses the CAS race to B; iteration 2 sets sA1 aside as unused, reserves
	// sA2 and loses the race to C; iteration 3 finds 2-a already there and cancels.
	step = 1
	_, _, err = collection.PutExistingRevWithBody(ctx, docID, Body{"w": "A"}, []string{"2-a", "1-a"}, false, ExistingVersionWithUpdateToHLV)
	require.Equal(t, 3, step, "scenario did not run as scripted (err=%v)", err)

	released := db.DbStats.Database().SequenceReleasedCount.Value() - releasedBefore
	if released < 2 {
		t.Fatalf("GOVC-REPLAY-VIOLATED: writer A reserved two sequences and used none, but only %d release(s) were attempted (err=%v)", released, err)
	}
}

func TestGovcC11PrincipalSequenceLeak(t *testing.T) {
	defer SuspendSequenceBatching()()
	db, ctx := setupTestDB(t)
	defer db.Close(ctx)

	// PUT /db/_user/alice {"password":"letmein","admin_channels":["a,b"]}: "a,b" is not a valid channel name, which is
	// detected by Save -> validate() (a non-CAS, non-timeout error; nothing is written) after the sequence was reserved.
	name := "alice"
	cfg := &auth.PrincipalConfig{Name: &name, Password: base.Ptr("letmein"), ExplicitChannels: base.SetOf("a,b")}
	releasedBefore := db.DbStats.Database().SequenceReleasedCount.Value()
	seqBefore, err := db.sequences.getSequence(ctx)
	require.NoError(t, err)
	_, _, err = db.UpdatePrincipal(ctx, cfg, true, true)
	require.Error(t, err)
	seqAfter, err2 := db.sequences.getSequence(ctx)
	require.NoError(t, err2)
	released := db.DbStats.Database().SequenceReleasedCount.Value() - releasedBefore
	if seqAfter > seqBefore && released == 0 {
		t.Fatalf("GOVC-REPLAY-VIOLATED: UpdatePrincipal failed (%v) after reserving sequence(s) %d..%d and released none", err, seqBefore+1, seqAfter)
	}
}
