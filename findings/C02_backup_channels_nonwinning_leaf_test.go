package db

import (
	"fmt"
	"testing"

	"github.com/couchbase/sync_gateway/base"
	"github.com/couchbase/sync_gateway/channels"
	"github.com/stretchr/testify/require"
)

// TestGovcC02Backup checks property C02 ("a reader sees a revision's body only if the reader has access to at
// least one channel that revision is in") for old revisions served from revision backups, when the backed up
// revision is the parent of an update that extends a NON-winning leaf of a conflicted document.
func TestGovcC02Backup(t *testing.T) {
	testCases := []struct {
		name            string
		advanceWinner   bool // when true, winner branch is advanced to 4-b first so that 3-a stays non-winning
		expectNewWinner string
	}{
		{name: "extensionBecomesWinner", advanceWinner: false, expectNewWinner: "3-a"},
		{name: "extensionStaysNonWinning", advanceWinner: true, expectNewWinner: "4-b"},
	}
	for _, tc := range testCases {
		t.Run(tc.name, func(t *testing.T) {
			db, ctx := setupTestDBAllowConflicts(t)
			defer db.Close(ctx)

			auth := db.Authenticator(ctx)
			alice, err := auth.NewUser("alice", "pass", base.SetOf("A"))
			require.NoError(t, err)

			collection, ctx := GetSingleDatabaseCollectionWithUser(ctx, t, db)
			// sync function: channel(doc.channels)
			collection.ChannelMapper = channels.NewChannelMapper(ctx, channels.DocChannelsSyncFunction, db.Options.JavascriptTimeout)

			const docID = "doc1"
			const secret = "s3cret-only-for-B"

			// admin writes
			collection.user = nil
			_, _, err = collection.PutExistingRevWithBody(ctx, docID, Body{"channels": []string{"A"}, "v": "root"}, []string{"1-a"}, false, ExistingVersionWithUpdateToHLV)
			require.NoError(t, err)
			// winner branch: 2-b in channel A
			_, _, err = collection.PutExistingRevWithBody(ctx, docID, Body{"channels": []string{"A"}, "v": "winner"}, []string{"2-b", "1-a"}, false, ExistingVersionWithUpdateToHLV)
			require.NoError(t, err)
			// non-winning leaf L = 2-a in channel B only
			_, _, err = collection.PutExistingRevWithBody(ctx, docID, Body{"channels": []string{"B"}, "secret": secret}, []string{"2-a", "1-a"}, false, ExistingVersionWithUpdateToHLV)
			require.NoError(t, err)
			if tc.advanceWinner {
				_, _, err = collection.PutExistingRevWithBody(ctx, docID, Body{"channels": []string{"A"}, "v": "winner3"}, []string{"3-b", "2-b", "1-a"}, false, ExistingVersionWithUpdateToHLV)
				require.NoError(t, err)
				_, _, err = collection.PutExistingRevWithBody(ctx, docID, Body{"channels": []string{"A"}, "v": "winner4"}, []string{"4-b", "3-b", "2-b", "1-a"}, false, ExistingVersionWithUpdateToHLV)
				require.NoError(t, err)
			}

			doc, err := collection.GetDocument(ctx, docID, DocUnmarshalAll)
			require.NoError(t, err)
			if tc.advanceWinner {
				require.Equal(t, "4-b", doc.GetRevTreeID())
			} else {
				require.Equal(t, "2-b", doc.GetRevTreeID())
			}
			lChannels, isLeaf := doc.channelsForRevTreeID("2-a")
			require.True(t, isLeaf)
			require.Equal(t, base.SetOf("B"), lChannels, "precondition: L=2-a is in channel B only")
			require.Equal(t, base.SetOf("A"), doc.getCurrentChannels(), "precondition: winner is in channel A only")

			// (a) BEFORE the update: alice (channel A only) must not see body of L
			db.FlushRevisionCacheForTest()
			collection.user = alice
			before, err := collection.Get1xRevBody(ctx, docID, "2-a", false, nil)
			if err == nil {
				require.Equal(t, true, before[BodyRemoved], "before update alice should get a redacted body, got %v", before)
				require.NotContains(t, fmt.Sprint(before), secret)
				_, hasSecret := before["secret"]
				require.False(t, hasSecret)
			} else {
				assertHTTPError(t, err, 403)
			}
			t.Logf("BEFORE update: alice GET %s?rev=2-a -> body=%v err=%v", docID, before, err)

			// the update: admin extends non-winning leaf L=2-a with 3-a (still only in channel B)
			db.FlushRevisionCacheForTest()
			collection.user = nil
			_, _, err = collection.PutExistingRevWithBody(ctx, docID, Body{"channels": []string{"B"}, "secret": "newer"}, []string{"3-a", "2-a", "1-a"}, false, ExistingVersionWithUpdateToHLV)
			require.NoError(t, err)

			doc, err = collection.GetDocument(ctx, docID, DocUnmarshalAll)
			require.NoError(t, err)
			require.Equal(t, tc.expectNewWinner, doc.GetRevTreeID())

			// what is the backup of 2-a stamped with?
			_, stamp, _, backupErr := collection.getOldRevisionJSON(ctx, docID, "2-a")
			t.Logf("backup of 2-a: channel stamp=%v err=%v", stamp, backupErr)

			// (b) AFTER the update: alice must still not see body of L
			db.FlushRevisionCacheForTest()
			collection.user = alice
			after, err := collection.Get1xRevBody(ctx, docID, "2-a", false, nil)
			t.Logf("AFTER update: alice GET %s?rev=2-a -> body=%v err=%v", docID, after, err)
			if err == nil {
				if _, hasSecret := after["secret"]; hasSecret || after[BodyRemoved] != true {
					t.Fatalf("GOVC-REPLAY-VIOLATED: user alice (channels {A}) read body of rev 2-a (channels {B}) from revision backup stamped %v after 2-a was extended by 3-a: body=%v", stamp, after)
				}
			}

			// same via GetRev (BLIP / 2.x style read API)
			db.FlushRevisionCacheForTest()
			rev, err := collection.GetRev(ctx, docID, "2-a", false, nil)
			t.Logf("AFTER update: alice GetRev 2-a -> body=%s err=%v", string(rev.BodyBytes), err)
			if err == nil && string(rev.BodyBytes) != RemovedRedactedDocument {
				t.Fatalf("GOVC-REPLAY-VIOLATED: user alice (channels {A}) read body of rev 2-a (channels {B}) via GetRev: %s", string(rev.BodyBytes))
			}
		})
	}
}
