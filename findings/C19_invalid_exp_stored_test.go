package db

// Demonstration for property C19, obligation db.DatabaseCollectionWithUser.PutExistingRevWithBody/assert/no-exp:
// PutExistingRevWithBody (PUT doc?new_edits=false, _bulk_docs with new_edits=false) discarded ExtractExpiry's error; for an
// invalid "_exp" ExtractExpiry returns before deleting the key, so the write was accepted, no expiry applied and the
// reserved property stored with the revision body. Put() and the BLIP path answer 400 for the same body.
// Run with: go test -overlay <ov.json mapping db/zz_c19_exp_test.go to this file> -run TestGovcC19InvalidExpStored ./db
// Fails on the tree before the fix commit, passes after.

import (
	"testing"
)

func TestGovcC19InvalidExpStored(t *testing.T) {
	db, ctx := setupTestDB(t)
	defer db.Close(ctx)
	collection, ctx := GetSingleDatabaseCollectionWithUser(ctx, t, db)
	body := Body{"k": 1, "_exp": "not-a-date"}
	_, _, err := collection.PutExistingRevWithBody(ctx, "doc1", body, []string{"1-abc"}, false, ExistingVersionWithUpdateToHLV)
	if err != nil {
		return // rejected as a client error: nothing stored
	}
	stored, err := collection.GetDocument(ctx, "doc1", DocUnmarshalAll)
	if err != nil {
		t.Fatalf("write accepted but document not readable: %v", err)
	}
	bb, _ := stored.BodyBytes(ctx)
	if _, has := stored.Body(ctx)["_exp"]; has {
		t.Fatalf("GOVC-REPLAY-VIOLATED: reserved _exp stored in the revision body: %s", bb)
	}
}
