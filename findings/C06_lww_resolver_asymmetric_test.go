package db

// Demonstration for property C06 (replicating peers converge): candidate finding F5,
// obligation db.lemma.lww_resolver_symmetric/lemma/single-winner (db/zz_verif_c06.go).
//
// The property: "Conflicting edits are resolved by the configured policy to a single winner that both sides adopt."
// The same pair of revisions is a conflict on both peers with the roles swapped (what is Local on one peer is Remote
// on the other), so both adopt the same revision only if the resolver picks the same document for (L, R) and (R, L).
//
// DefaultLWWConflictResolutionType (the "default" policy of the version-vector protocol,
// db/hybrid_logical_vector.go:973) compares only HLV.Version: `if Remote.Version > Local.Version { remote } else { local }`.
// When the two current versions have the SAME value but come from DIFFERENT sources (two clusters stamping the
// same hybrid-logical-clock value, or an HLC value colliding with another source's), and the tombstone flags agree,
// neither is greater: each peer answers "local" and keeps its own revision. The source id is never consulted, so
// there is no deterministic tie-break (the revision-tree resolver DefaultConflictResolver has one: the digest).
//
//   cd /repo && go test -mod=mod -vet=off -count=1 -overlay <ov.json mapping db/zz_c06_lww_test.go to this file> -run TestGovcC06LWWEachSideKeepsItsOwn ./db

import (
	"testing"

	"github.com/couchbase/sync_gateway/base"
)

func TestGovcC06LWWEachSideKeepsItsOwn(t *testing.T) {
	ctx := base.TestCtx(t)

	const sameValue = uint64(0x1890000000000000) // one HLC value, produced by two different sources

	hlvA := NewHybridLogicalVector()
	if err := hlvA.AddVersion(Version{SourceID: "clusterA", Value: sameValue}); err != nil {
		t.Fatalf("setup: %v", err)
	}
	hlvB := NewHybridLogicalVector()
	if err := hlvB.AddVersion(Version{SourceID: "clusterB", Value: sameValue}); err != nil {
		t.Fatalf("setup: %v", err)
	}
	// the two revisions really are in conflict (neither vector knows the other's current version) ...
	if got := IsInConflict(ctx, hlvA, hlvB); got != HLVConflict {
		t.Fatalf("setup: IsInConflict(A,B) = %v, expected a conflict", got)
	}
	if got := IsInConflict(ctx, hlvB, hlvA); got != HLVConflict {
		t.Fatalf("setup: IsInConflict(B,A) = %v, expected a conflict", got)
	}
	// ... and they are different revisions with different bodies
	docA := Body{BodyId: "doc", BodyRev: "2-aaa", BodyCV: hlvA.GetCurrentVersionString(), BodyDeleted: false, "writtenBy": "A"}
	docB := Body{BodyId: "doc", BodyRev: "2-bbb", BodyCV: hlvB.GetCurrentVersionString(), BodyDeleted: false, "writtenBy": "B"}
	if docA[BodyCV] == docB[BodyCV] {
		t.Fatalf("setup: the two current versions are the same revision")
	}

	// peer A: its own revision is Local, B's is Remote.   peer B: the roles are swapped.
	onA := Conflict{LocalDocument: docA, RemoteDocument: docB, LocalHLV: hlvA, RemoteHLV: hlvB}
	onB := Conflict{LocalDocument: docB, RemoteDocument: docA, LocalHLV: hlvB, RemoteHLV: hlvA}

	resolver := NewConflictResolver(DefaultLWWConflictResolutionType, nil)
	winnerOnA, typeOnA, err := resolver.ResolveForHLV(ctx, onA)
	if err != nil {
		t.Fatalf("resolve on A: %v", err)
	}
	winnerOnB, typeOnB, err := resolver.ResolveForHLV(ctx, onB)
	if err != nil {
		t.Fatalf("resolve on B: %v", err)
	}
	t.Logf("peer A adopts the revision written by %v (%s, classified %q)", winnerOnA["writtenBy"], winnerOnA[BodyCV], typeOnA)
	t.Logf("peer B adopts the revision written by %v (%s, classified %q)", winnerOnB["writtenBy"], winnerOnB[BodyCV], typeOnB)

	if winnerOnA[BodyCV] != winnerOnB[BodyCV] {
		t.Errorf("C06 violated: no single winner. Peer A keeps %v, peer B keeps %v (both resolutions are %q/%q): "+
			"equal Version values from different sources, DefaultLWWConflictResolutionType never looks at the source id",
			winnerOnA[BodyCV], winnerOnB[BodyCV], typeOnA, typeOnB)
	}

	// control: the revision-tree default policy on the same two documents does pick one winner
	revA, _ := DefaultConflictResolver(ctx, onA)
	revB, _ := DefaultConflictResolver(ctx, onB)
	if revA[BodyRev] != revB[BodyRev] {
		t.Errorf("control failed: DefaultConflictResolver picked %v on A and %v on B", revA[BodyRev], revB[BodyRev])
	} else {
		t.Logf("control: DefaultConflictResolver picks %v on both peers", revA[BodyRev])
	}
}
