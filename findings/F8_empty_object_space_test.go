package db

import (
	"encoding/json"
	"testing"

	"github.com/couchbase/sync_gateway/base"
	"github.com/stretchr/testify/require"
)

// C19 candidate finding F8: a document whose stored body is an object with only white space between the
// braces ("{ }", as an SDK may write it) is imported; the changes-feed path (include_docs) splices _id/_rev
// into the raw bytes and emits `{ ,"_id":...}`, which is not JSON.
func TestC19EmptyObjectWithInteriorSpace(t *testing.T) {
	// unit level
	out, err := base.InjectJSONProperties([]byte("{ }"), base.KVPair{Key: "_id", Val: "doc"})
	require.NoError(t, err)
	t.Logf("InjectJSONProperties(\"{ }\") = %s  valid=%v", out, json.Valid(out))

	db, ctx := SetupTestDBWithOptions(t, DatabaseContextOptions{})
	defer db.Close(ctx)
	collection, ctx := GetSingleDatabaseCollectionWithUser(ctx, t, db)
	for _, raw := range []string{"{}", "{ }", "{\n}"} {
		key := t.Name() + base.Sha1HashString(raw, "")[:6]
		_, err = collection.dataStore.WriteCas(ctx, key, 0, 0, []byte(raw), 0)
		require.NoError(t, err)
		doc, err := collection.GetDocument(ctx, key, DocUnmarshalAll) // on-demand import
		require.NoError(t, err)
		t.Logf("raw %q imported as rev %s, _rawBody=%q", raw, doc.GetRevTreeID(), doc._rawBody)
		rev, err := collection.getRev(ctx, key, doc.GetRevTreeID(), 0, nil)
		require.NoError(t, err)
		t.Logf("rev.BodyBytes=%q", rev.BodyBytes)
		b, err := rev.As1xBytes(ctx, collection, nil, nil, false)
		require.NoError(t, err)
		t.Logf("As1xBytes=%s valid=%v", b, json.Valid(b))
		entry := &ChangeEntry{ID: key}
		require.NoError(t, collection.AddDocToChangeEntryUsingRevCache(ctx, entry, doc.GetRevTreeID()))
		_, merr := json.Marshal(entry)
		t.Logf("changes entry marshal error: %v", merr)
		require.True(t, json.Valid(b), "1.x body of imported %q must be valid JSON, got %s", raw, b)
	}
}
