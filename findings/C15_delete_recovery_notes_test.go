package rest

// Demonstrations for the C15 reading notes (b), (c), (d): candidate findings at the protocol level
// (rest/config_manager.go), run through the real InsertConfig / DeleteConfig / GetDatabaseConfigs on bootstrapContext
// copies ("nodes") that share one bucket. The interleaving / crash point is pinned with a BootstrapConnection wrapper.

import (
	"context"
	"errors"
	"sync"
	"testing"
	"time"

	"github.com/couchbase/sync_gateway/base"
	"github.com/couchbase/sync_gateway/testing/require"
)

type c15DeleteHookConn struct {
	base.BootstrapConnection
	key       string
	once      sync.Once
	before    func() error // non-nil error: the delete is not performed and the error is returned ("crash before")
	afterFunc func() error // runs after the real delete; non-nil error is returned to the caller ("crash after")
}

func (c *c15DeleteHookConn) DeleteMetadataDocument(ctx context.Context, bucket, key string, cas uint64) error {
	if key != c.key {
		return c.BootstrapConnection.DeleteMetadataDocument(ctx, bucket, key, cas)
	}
	var hookErr error
	hooked := false
	c.once.Do(func() {
		hooked = true
		if c.before != nil {
			hookErr = c.before()
		}
	})
	if hooked && hookErr != nil {
		return hookErr
	}
	err := c.BootstrapConnection.DeleteMetadataDocument(ctx, bucket, key, cas)
	if hooked && err == nil && c.afterFunc != nil {
		return c.afterFunc()
	}
	return err
}

type c15env struct {
	bc         *bootstrapContext
	bucketName string
	groupID    string
	named      ScopesConfig
	db1Key     string
}

func c15setup(t *testing.T) (context.Context, *c15env, func()) {
	base.TestRequiresCollections(t)
	base.RequireNumTestDataStores(t, 1)
	ctx := base.TestCtx(t)
	tb := base.GetTestBucket(t)
	sc, closeFn := startBootstrapServerWithoutConfigPolling(t, false)
	cols := GetCollectionsConfig(t, tb, 1)
	names := GetDataStoreNamesFromScopesConfig(cols)
	env := &c15env{bc: sc.BootstrapContext, bucketName: tb.GetName(), groupID: sc.Config.Bootstrap.ConfigGroupID,
		named: ScopesConfig{names[0].ScopeName(): ScopeConfig{map[string]*CollectionConfig{names[0].CollectionName(): {}}}}}
	env.bc.configRetryTimeout = 1 * time.Millisecond
	env.db1Key = PersistentConfigKey(ctx, env.groupID, "db1")
	return ctx, env, func() { closeFn(); tb.Close(ctx) }
}

// (b) DeleteConfig's finalize step removes whatever entry the re-read registry has under the name, also the entry of
// a database that was re-created (and acknowledged) after the config document was deleted.
func TestGovcC15NoteB_DeleteFinalizeDropsRecreatedDb(t *testing.T) {
	ctx, e, done := c15setup(t)
	defer done()
	_, err := e.bc.InsertConfig(ctx, e.bucketName, e.groupID, getTestDatabaseConfig(e.bucketName, "db1", e.named, "1-a"))
	require.NoError(t, err)

	var errB error
	nodeA := *e.bc
	nodeA.Connection = &c15DeleteHookConn{BootstrapConnection: e.bc.Connection, key: e.db1Key, afterFunc: func() error {
		// node B: create db1 again, between node A's config-document delete and its finalize step
		cfgB := getTestDatabaseConfig(e.bucketName, "db1", e.named, "1-b")
		cfgB.RevsLimit = base.Ptr(uint32(2222))
		_, errB = e.bc.InsertConfig(ctx, e.bucketName, e.groupID, cfgB)
		return nil
	}}
	errA := nodeA.DeleteConfig(ctx, e.bucketName, e.groupID, "db1")
	require.NoError(t, errA)
	require.NoError(t, errB, "node B's create of db1 is expected to be acknowledged in this interleaving")

	configs, err := e.bc.GetDatabaseConfigs(ctx, e.bucketName, e.groupID)
	require.NoError(t, err)
	if len(configs) != 1 || configs[0].Version != "1-b" {
		registry, _ := e.bc.getGatewayRegistry(ctx, e.bucketName)
		_, inRegistry := registry.getRegistryDatabase(e.groupID, "db1")
		var doc DatabaseConfig
		_, docErr := e.bc.Connection.GetMetadataDocument(ctx, e.bucketName, e.db1Key, &doc)
		t.Fatalf("GOVC-REPLAY-VIOLATED: acknowledged create of db1@1-b lost to the concurrent delete finalize: GetDatabaseConfigs returns %d configs, db1 in registry: %v, config document still present: %v (version %q)", len(configs), inRegistry, docErr == nil, doc.Version)
	}
}

// (d) an interrupted delete (registry marked, node dies before the config document is deleted) of a database on a
// named collection blocks the creation of another database on the default collection.
func TestGovcC15NoteD_InterruptedDeleteBlocksDefaultCollection(t *testing.T) {
	ctx, e, done := c15setup(t)
	defer done()
	_, err := e.bc.InsertConfig(ctx, e.bucketName, e.groupID, getTestDatabaseConfig(e.bucketName, "db1", e.named, "1-a"))
	require.NoError(t, err)
	nodeA := *e.bc
	nodeA.Connection = &c15DeleteHookConn{BootstrapConnection: e.bc.Connection, key: e.db1Key, before: func() error { return errors.New("node A dies before deleting the config document") }}
	require.Error(t, nodeA.DeleteConfig(ctx, e.bucketName, e.groupID, "db1"))

	_, err = e.bc.InsertConfig(ctx, e.bucketName, e.groupID, getTestDatabaseConfig(e.bucketName, "db2", nil, "1-a"))
	if err != nil {
		t.Fatalf("GOVC-REPLAY-VIOLATED: after the interrupted delete of db1 (named collection only) db2 cannot be created on _default._default: %v", err)
	}
}

// (c) delete interrupted after the config document was deleted (before finalize); the same database is created again
// (acknowledged); the in-progress-delete marker survives as PreviousVersion of the new entry and blocks another
// database from the default collection.
func TestGovcC15NoteC_StalePreviousVersionAfterRecreate(t *testing.T) {
	ctx, e, done := c15setup(t)
	defer done()
	_, err := e.bc.InsertConfig(ctx, e.bucketName, e.groupID, getTestDatabaseConfig(e.bucketName, "db1", e.named, "1-a"))
	require.NoError(t, err)
	nodeA := *e.bc
	nodeA.Connection = &c15DeleteHookConn{BootstrapConnection: e.bc.Connection, key: e.db1Key, afterFunc: func() error { return errors.New("node A dies after deleting the config document, before finalize") }}
	require.Error(t, nodeA.DeleteConfig(ctx, e.bucketName, e.groupID, "db1"))

	_, err = e.bc.InsertConfig(ctx, e.bucketName, e.groupID, getTestDatabaseConfig(e.bucketName, "db1", e.named, "2-a"))
	require.NoError(t, err, "re-creating db1 after the interrupted delete")
	registry, err := e.bc.getGatewayRegistry(ctx, e.bucketName)
	require.NoError(t, err)
	db1, ok := registry.getRegistryDatabase(e.groupID, "db1")
	require.True(t, ok)
	if db1.PreviousVersion != nil {
		t.Logf("db1 entry after the acknowledged re-create: version %s, PreviousVersion %+v", db1.Version, *db1.PreviousVersion)
	}
	_, err = e.bc.InsertConfig(ctx, e.bucketName, e.groupID, getTestDatabaseConfig(e.bucketName, "db2", nil, "1-a"))
	if err != nil {
		t.Fatalf("GOVC-REPLAY-VIOLATED: db1 re-created and acknowledged, yet db2 cannot be created on _default._default: %v (db1.PreviousVersion=%+v)", err, db1.PreviousVersion)
	}
}
