package auth

// Demonstration for candidate finding F2 (property C12, obligations
// auth.Authenticator.GetSession/post/not-disabled and auth.Authenticator.AuthenticateCookie/post/not-disabled):
// a user that is disabled after a session was created for it is still authenticated by that session.
// Run with:
//   cd /repo && go test -mod=mod -vet=off -count=1 -overlay <ov.json mapping auth/zz_f2_test.go to this file> -run TestGovcF2 ./auth
// Fails on the tree before the fix commit (the disabled user is authenticated), passes after.

import (
	"net/http"
	"net/http/httptest"
	"testing"
	"time"

	"github.com/couchbase/sync_gateway/base"
	"github.com/stretchr/testify/require"
)

func TestGovcF2(t *testing.T) {
	ctx := base.TestCtx(t)
	bucket := base.GetTestBucket(t)
	defer bucket.Close(ctx)
	a := NewTestAuthenticator(t, bucket.GetSingleDataStore(), nil, DefaultAuthenticatorOptions(ctx))

	user, err := a.NewUser("alice", "letmein", base.Set{})
	require.NoError(t, err)
	require.NoError(t, a.Save(user))
	session, err := a.CreateSession(ctx, user, 2*time.Hour, false)
	require.NoError(t, err)

	// the administrator disables the account (what PUT /db/_user/alice {"disabled":true} does: db/users.go SetDisabled + Save)
	user, err = a.GetUser("alice")
	require.NoError(t, err)
	user.SetDisabled(true)
	require.NoError(t, a.Save(user))

	// password authentication is refused ...
	u, err := a.AuthenticateUser("alice", "letmein")
	require.NoError(t, err)
	require.Nil(t, u, "disabled user must not authenticate with the password")

	// ... and neither may an existing session authenticate the disabled user
	_, su, _ := a.GetSession(session.ID)
	if su != nil {
		t.Fatalf("GOVC-REPLAY-VIOLATED: GetSession returned the disabled user %q", su.Name())
	}
	rq := httptest.NewRequest(http.MethodGet, "http://localhost/db/_session", nil)
	rq.AddCookie(a.MakeSessionCookie(session, false, false, http.SameSiteDefaultMode))
	cu, _ := a.AuthenticateCookie(rq, httptest.NewRecorder())
	if cu != nil {
		t.Fatalf("GOVC-REPLAY-VIOLATED: AuthenticateCookie authenticated the disabled user %q", cu.Name())
	}
}
