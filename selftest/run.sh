#!/bin/bash
# Must-fail corpus: every patch under selftest/<prop>/*.patch (hand-made property-breaking edits) and every
# seeded/<x>/ that has an expect.txt (sub-agent mutations the checks are known to catch) is applied to a
# scratch worktree of /repo (never /repo itself); the property's quick check must then fail on the obligation
# named in the matching .expect file (substring match). Run on every engine change.
#   ./check selftest            # all
#   ./check selftest C20 C17    # only these properties
set -u
cd "$(dirname "$0")/.."
want="$*"
fail=0; n=0
run_one() { # prop patch expect label
  local prop=$1 patch=$2 expect=$3 label=$4
  if [ -n "$want" ] && ! echo " $want " | grep -q " $prop "; then return; fi
  local wt=/tmp/selftest.$$.$n
  git -C /repo worktree add --detach "$wt" HEAD -q || { echo "SELFTEST-ERROR worktree"; fail=1; return; }
  (cd /repo && ls */zz_verif_*.go 2>/dev/null) | while read f; do cp /repo/$f $wt/$f; done
  if ! git -C "$wt" apply "$(realpath $patch)" 2>/dev/null; then echo "SELFTEST-ERROR $label: patch does not apply"; fail=1; git -C /repo worktree remove --force "$wt"; return; fi
  out=$(./bin/govc check -prop $prop -repo "$wt" -replays /tmp/selftest.$$.$n.replays 2>&1); rc=$?
  git -C /repo worktree remove --force "$wt"; rm -rf /tmp/selftest.$$.$n.replays
  local ok=1
  [ $rc -eq 0 ] && ok=0
  while read -r e; do [ -z "$e" ] && continue; echo "$out" | grep -E "VIOLATION" | grep -qF -- "$e" || ok=0; done < "$expect"
  if [ $ok = 1 ]; then echo "selftest ok    $label: $prop fails on $(tr '\n' ' ' < $expect)"; else echo "SELFTEST-MISS  $label: expected $prop to fail on $(tr '\n' ' ' < $expect); exit=$rc"; echo "$out" | grep -E "VIOLATION|^govc" | head -5; fail=1; fi
}
# cases run SELFTEST_JOBS at a time (default 3); each writes its verdict line to a file, printed in order at the end
jobs_max=${SELFTEST_JOBS:-3}
outdir=$(mktemp -d /var/tmp/selftest.XXXXXX)
k=0
launch() { # prop patch expect label
  k=$((k+1))
  ( n=$k; run_one "$@" > "$outdir/$(printf %04d $k).out" 2>&1 ) &
  while [ "$(jobs -rp | wc -l)" -ge "$jobs_max" ]; do sleep 1; done
}
for d in selftest/C*/; do
  prop=$(basename $d)
  for p in $d*.patch; do [ -f "$p" ] || continue; launch $prop "$p" "${p%.patch}.expect" "$p"; done
done
for d in seeded/*/; do
  [ -f "$d/expect.txt" ] || continue
  prop=$(jq -r .property $d/meta.json)
  p="$d/patch.diff"; [ -f "$d/patch_rebased.diff" ] && p="$d/patch_rebased.diff"
  launch $prop "$p" "$d/expect.txt" "$d"
done
wait
cat "$outdir"/*.out 2>/dev/null
n=$(cat "$outdir"/*.out 2>/dev/null | grep -c "^selftest ok\|^SELFTEST-")
fail=0; grep -q "^SELFTEST-" "$outdir"/*.out 2>/dev/null && fail=1
rm -rf "$outdir"
echo "selftest: $n cases, $( [ $fail = 0 ] && echo all detected || echo SOME MISSED )"
exit $fail
