package main

import (
	"bytes"
	"context"
	"fmt"
	"os"
	"os/exec"
	"path/filepath"
	"strings"
	"sync"
	"time"
)

type solverSpec struct {
	name string
	args func(file string, secs int) []string
}

var solvers = []solverSpec{
	{"z3-new", func(f string, s int) []string { return []string{"z3-new", "-smt2", fmt.Sprintf("-T:%d", s), f} }},
	{"cvc5", func(f string, s int) []string {
		return []string{"cvc5", "--lang=smt2", fmt.Sprintf("--tlimit=%d", s*1000), f}
	}},
	{"z3", func(f string, s int) []string { return []string{"z3", "-smt2", fmt.Sprintf("-T:%d", s), f} }},
}

var confirmUnsat bool

type solveOut struct {
	solver string
	res    string // sat | unsat | unknown | timeout | error
	secs   float64
	out    string
}

func runSolver(ctx context.Context, sp solverSpec, file string, secs int) solveOut {
	t0 := time.Now()
	args := sp.args(file, secs)
	cctx, cancel := context.WithTimeout(ctx, time.Duration(secs+2)*time.Second)
	defer cancel()
	cmd := exec.CommandContext(cctx, args[0], args[1:]...)
	var buf bytes.Buffer
	cmd.Stdout = &buf
	cmd.Stderr = &buf
	_ = cmd.Run()
	out := buf.String()
	first := strings.TrimSpace(strings.SplitN(strings.TrimSpace(out), "\n", 2)[0])
	res := "error"
	switch {
	case first == "sat" || first == "unsat" || first == "unknown":
		res = first
	case strings.Contains(out, "timeout") || cctx.Err() != nil:
		res = "timeout"
	}
	// skip leading warnings
	if res == "error" {
		for _, l := range strings.Split(out, "\n") {
			l = strings.TrimSpace(l)
			if l == "sat" || l == "unsat" || l == "unknown" {
				res = l
				break
			}
		}
	}
	return solveOut{sp.name, res, time.Since(t0).Seconds(), out}
}

// discharge races the solver portfolio on one obligation.
func discharge(o *Obligation, dir string, secs int, wantModel bool) {
	smt := o.g.render(o, false)
	o.SMTSize = len(smt)
	if len(smt) > 8<<20 {
		o.Result = "refused"
		o.Note = "VC larger than 8 MB"
		return
	}
	base := filepath.Join(dir, sanitizeFile(o.Name))
	file := base + ".smt2"
	if err := os.WriteFile(file, []byte(smt), 0o644); err != nil {
		o.Result = "error"
		o.Note = err.Error()
		return
	}
	if o.Expect == "sat" && secs > 3 {
		secs = 3
	}
	// stage 1: z3 5.1 alone for a few seconds (decides the large majority and keeps the machine free);
	// stage 2: all three solvers raced for the full budget.
	decided := false
	var outs []solveOut
	if os.Getenv("GOVC_NO_STAGE1") == "" {
		s1 := 4 * loadFactor()
		if secs < s1 {
			s1 = secs
		}
		r := runSolver(context.Background(), solvers[0], file, s1)
		if r.res == "unsat" || r.res == "sat" {
			o.Result, o.Solver, o.Secs = r.res, r.solver, r.secs
			decided = true
		}
	}
	if !decided {
		ctx, cancel := context.WithCancel(context.Background())
		defer cancel()
		ch := make(chan solveOut, len(solvers))
		for _, sp := range solvers {
			go func(sp solverSpec) { ch <- runSolver(ctx, sp, file, secs) }(sp)
		}
		for range solvers {
			r := <-ch
			outs = append(outs, r)
			if r.res == "unsat" || r.res == "sat" {
				o.Result, o.Solver, o.Secs = r.res, r.solver, r.secs
				decided = true
				cancel()
				break
			}
		}
	}
	if !decided {
		o.Result = "unknown"
		var notes []string
		for _, r := range outs {
			notes = append(notes, r.solver+":"+r.res)
			if r.secs > o.Secs {
				o.Secs = r.secs
			}
		}
		o.Note = strings.Join(notes, " ")
		for _, r := range outs {
			if r.res == "error" {
				o.Note += " | " + r.solver + ": " + firstLines(r.out, 3)
			}
		}
	}
	if o.Result == "unsat" && o.Expect == "unsat" && confirmUnsat {
		// thorough tier: every unsat is confirmed by a second, different solver when one answers in time
		for _, sp := range solvers {
			if sp.name == o.Solver {
				continue
			}
			r := runSolver(context.Background(), sp, file, secs)
			if r.res == "unsat" {
				o.Confirmed = sp.name
				break
			}
			if r.res == "sat" {
				o.Result = "sat"
				o.Note = "DISAGREEMENT: " + o.Solver + " unsat, " + sp.name + " sat"
				o.Solver = sp.name
				break
			}
		}
	}
	if o.Result == "sat" && o.Expect == "unsat" && wantModel {
		// get a model from z3-new (or whichever answers)
		msmt := o.g.render(o, true) + "(get-model)\n"
		mfile := base + ".model.smt2"
		_ = os.WriteFile(mfile, []byte(msmt), 0o644)
		for _, sp := range []solverSpec{solvers[0], solvers[1]} {
			r := runSolver(context.Background(), sp, mfile, secs)
			if r.res == "sat" {
				o.Model = r.out
				break
			}
		}
	}
}

func firstLines(s string, n int) string {
	ls := strings.Split(strings.TrimSpace(s), "\n")
	if len(ls) > n {
		ls = ls[:n]
	}
	return strings.Join(ls, " / ")
}

func sanitizeFile(s string) string {
	var b strings.Builder
	for _, r := range s {
		switch {
		case r >= 'a' && r <= 'z', r >= 'A' && r <= 'Z', r >= '0' && r <= '9', r == '.', r == '-', r == '_':
			b.WriteRune(r)
		default:
			b.WriteByte('_')
		}
	}
	out := b.String()
	if len(out) > 150 {
		out = out[:130] + fmt.Sprintf("_%x", hashStr(out))
	}
	return out
}

func dischargeAll(obls []*Obligation, dir string, secs int, par int) {
	sem := make(chan struct{}, par)
	var wg sync.WaitGroup
	for _, o := range obls {
		wg.Add(1)
		sem <- struct{}{}
		go func(o *Obligation) {
			defer wg.Done()
			defer func() { <-sem }()
			discharge(o, dir, secs, true)
		}(o)
	}
	wg.Wait()
}
