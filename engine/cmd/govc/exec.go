package main

// Symbolic semantics of go/ssa instructions over the Gen state model.

import (
	"fmt"
	"go/token"
	"go/types"
	"math/big"
	"strings"

	"golang.org/x/tools/go/ssa"
)

type akind int

const (
	akLocal akind = iota
	akField
	akCell
	akElem
)

type pstep struct {
	isIdx   bool
	field   int
	structT types.Type
	idx     string
	elemT   types.Type
}

type Addr struct {
	kind  akind
	local string
	comp  string
	base  string // ref (field/cell) or backing array ref (elem)
	idx   string // elem: absolute index
	rootT types.Type
	path  []pstep
	ty    types.Type // pointee type
}

type unsupported struct{ msg string }

func (u unsupported) Error() string { return u.msg }

func unsup(f string, a ...any) { panic(unsupported{fmt.Sprintf(f, a...)}) }

type retInfo struct {
	pc      string
	results []string
	st      *State
	blk     *ssa.BasicBlock
}

type dbgRef struct {
	v      ssa.Value
	isAddr bool
	blk    *ssa.BasicBlock
	idx    int
}

type rangeInfo struct {
	r       *ssa.Range
	visited string // local state var id
	has0    string // map has-array at range start
	mapRef  string
	mt      *types.Map
	isMap   bool
}

type Exec struct {
	stopsLoop map[string]bool
	backPCs   []string // path conditions of loop back edges
	assertHit map[*CallAssert]bool // before/after clauses that matched a call site
	curState *State // state of the instruction being executed (set around conversions that need the heap)
	g        *Gen
	P        *Program
	fn       *ssa.Function
	c        *Contract
	pureMode bool
	vals     map[ssa.Value]string
	addrs    map[ssa.Value]*Addr
	tuples   map[ssa.Value][]string
	closures map[ssa.Value]*ssa.MakeClosure
	localOK  map[*ssa.Alloc]bool
	entry    *State
	rets     []retInfo
	dbg      map[string][]dbgRef
	ranges   map[ssa.Value]*rangeInfo
	callOrd  map[string]int
	pcCur    string
	safety   bool
	deferred []*ssa.Defer
	selfName string // pure: own SMT function name
	heapArgs map[string]bool
	paramVals []string
	callLog  []*callRec
	curBlk   *ssa.BasicBlock
	phiOverride map[*ssa.Phi]string
	allocAtEntry map[*ssa.BasicBlock]string
	loops    map[*ssa.BasicBlock]*loopInfo
}

type callRec struct {
	callee string
	short  string
	ord    int
	pc     string
	instr  ssa.CallInstruction
	args   []string
	res    []string
	pre    *State
	post   *State
	factIx int
	blk    *ssa.BasicBlock
}

func newExec(g *Gen, fn *ssa.Function, c *Contract) *Exec {
	ex := &Exec{g: g, P: g.P, fn: fn, c: c, vals: map[ssa.Value]string{}, addrs: map[ssa.Value]*Addr{}, tuples: map[ssa.Value][]string{},
		closures: map[ssa.Value]*ssa.MakeClosure{}, localOK: map[*ssa.Alloc]bool{}, dbg: map[string][]dbgRef{}, ranges: map[ssa.Value]*rangeInfo{},
		callOrd: map[string]int{}, heapArgs: map[string]bool{}}
	if c != nil {
		ex.safety = c.Safety
	}
	ex.analyseAllocs()
	ex.collectDebug()
	return ex
}

// ---------- pre-analyses ----------

func (ex *Exec) analyseAllocs() {
	for _, b := range ex.fn.Blocks {
		for _, in := range b.Instrs {
			if a, ok := in.(*ssa.Alloc); ok {
				elem := a.Type().(*types.Pointer).Elem()
				if _, isArr := elem.Underlying().(*types.Array); isArr {
					continue
				}
				ex.localOK[a] = addrOnlyUses(a, a)
			}
		}
	}
}

// addrOnlyUses: v (a pointer derived from alloc) is used only as load/store address or to derive field/index addresses.
func addrOnlyUses(v ssa.Value, root *ssa.Alloc) bool {
	refs := v.Referrers()
	if refs == nil {
		return false
	}
	for _, r := range *refs {
		switch u := r.(type) {
		case *ssa.Store:
			if u.Val == v {
				return false
			}
		case *ssa.UnOp:
			if u.Op != token.MUL {
				return false
			}
		case *ssa.FieldAddr:
			if !addrOnlyUses(u, root) {
				return false
			}
		case *ssa.IndexAddr:
			if u.X != v || !addrOnlyUses(u, root) {
				return false
			}
		case *ssa.DebugRef:
		default:
			return false
		}
	}
	return true
}

func (ex *Exec) collectDebug() {
	for _, b := range ex.fn.Blocks {
		for i, in := range b.Instrs {
			if d, ok := in.(*ssa.DebugRef); ok {
				if obj := d.Object(); obj != nil {
					if _, isVar := obj.(*types.Var); isVar {
						ex.dbg[obj.Name()] = append(ex.dbg[obj.Name()], dbgRef{d.X, d.IsAddr, b, i})
					}
				}
			}
		}
	}
}

// ---------- values ----------

func (ex *Exec) bind(prefix, sort, term string) string {
	if ex.pureMode {
		return term
	}
	n := ex.g.freshConst(prefix, sort)
	ex.g.addFact(fmt.Sprintf("(= %s %s)", n, term))
	return n
}

func (ex *Exec) freshVal(prefix string, t types.Type) string {
	if ex.pureMode {
		unsup("fresh value in pure function")
	}
	n := ex.g.freshConst(prefix, ex.g.sortOf(t))
	if rf := ex.g.rangeFact(t, n); rf != "" {
		ex.g.addFact(rf)
	}
	return n
}

func (ex *Exec) val(v ssa.Value) string {
	switch x := v.(type) {
	case *ssa.Const:
		return ex.g.constVal(x.Type(), x.Value)
	case *ssa.Global:
		return ex.globalRef(x)
	case *ssa.Function:
		n := "|fn:" + shortKey(funcKey(x)) + "|"
		if !ex.g.declared[n] {
			ex.g.declared[n] = true
			ex.g.decls = append(ex.g.decls, fmt.Sprintf("(declare-const %s Int)", n), fmt.Sprintf("(assert (not (= %s 0)))", n))
		}
		return n
	case *ssa.Builtin:
		return "0"
	}
	if t, ok := ex.vals[v]; ok {
		return t
	}
	if a, ok := ex.addrs[v]; ok {
		// interior pointer used as a first-class value
		return ex.addrAsValue(v, a)
	}
	unsup("no value for %s (%T) in %s", v.Name(), v, ex.fn.Name())
	return ""
}

func (ex *Exec) globalRef(gl *ssa.Global) string {
	pk := ""
	if gl.Pkg != nil {
		pk = strings.TrimPrefix(gl.Pkg.Pkg.Path(), modPath+"/")
	}
	n := "|glob:" + pk + "." + gl.Name() + "|"
	if !ex.g.declared[n] {
		ex.g.declared[n] = true
		ex.g.decls = append(ex.g.decls, fmt.Sprintf("(declare-const %s Int)", n), fmt.Sprintf("(assert (not (= %s 0)))", n))
	}
	return n
}

// addrAsValue: an interior pointer (field/element address) escapes as a value. We give it an opaque
// identity; writes through it by callees are handled by havocking the location at the call site.
func (ex *Exec) addrAsValue(v ssa.Value, a *Addr) string {
	if a.kind == akCell && len(a.path) == 0 {
		return a.base
	}
	if a.kind == akField && len(a.path) == 0 {
		// pointer to a scalar field: opaque function of base
		fn := "|fldptr:" + a.comp + "|"
		if !ex.g.declared[fn] {
			ex.g.declared[fn] = true
			ex.g.decls = append(ex.g.decls, fmt.Sprintf("(declare-fun %s (Int) Int)", fn))
			ex.g.decls = append(ex.g.decls, fmt.Sprintf("(assert (forall ((r Int)) (! (=> (not (= r 0)) (not (= (%s r) 0))) :pattern ((%s r)))))", fn, fn))
		}
		return fmt.Sprintf("(%s %s)", fn, a.base)
	}
	n := ex.g.freshConst("iptr", "Int")
	ex.g.addFact(fmt.Sprintf("(not (= %s 0))", n))
	return n
}

// ---------- addresses ----------

func (ex *Exec) addrOf(v ssa.Value) *Addr {
	if a, ok := ex.addrs[v]; ok {
		return a
	}
	// first-class pointer value: Ref into cell heap or struct heap
	pt, ok := v.Type().Underlying().(*types.Pointer)
	if !ok {
		unsup("address of non-pointer %s", v.Name())
	}
	ref := ex.val(v)
	elem := pt.Elem()
	if _, isSt := elem.Underlying().(*types.Struct); isSt {
		return &Addr{kind: akField, comp: "", base: ref, rootT: elem, ty: elem} // whole-object
	}
	if at, isArr := elem.Underlying().(*types.Array); isArr {
		_ = at
		return &Addr{kind: akElem, comp: "", base: ref, rootT: elem, ty: elem} // whole array object
	}
	return &Addr{kind: akCell, comp: ex.g.cellComp(elem), base: ref, rootT: elem, ty: elem}
}

func (ex *Exec) fieldAddr(x ssa.Value, field int) (res *Addr, refVal string) {
	pt := x.Type().Underlying().(*types.Pointer)
	stT := pt.Elem()
	st := stT.Underlying().(*types.Struct)
	ft := st.Field(field).Type()
	if a, ok := ex.addrs[x]; ok && !(a.kind == akField && a.comp == "") {
		na := *a
		na.path = append(append([]pstep{}, a.path...), pstep{field: field, structT: stT})
		na.ty = ft
		return &na, ""
	}
	ref := ex.val(x)
	if _, isSt := ft.Underlying().(*types.Struct); isSt {
		return nil, ex.g.subRef(stT, field, ref)
	}
	return &Addr{kind: akField, comp: ex.g.fieldComp(stT, field), base: ref, rootT: ft, ty: ft}, ""
}

// rootLoad/rootStore: value at the root of an address.
func (ex *Exec) rootLoad(st *State, a *Addr) string {
	switch a.kind {
	case akLocal:
		v, ok := st.locals[a.local]
		if !ok {
			unsup("local %s not initialised", a.local)
		}
		return v
	case akField:
		if a.comp == "" {
			return ex.loadStruct(st, a.rootT, a.base)
		}
		return fmt.Sprintf("(select %s %s)", ex.compGet(st, a.comp), a.base)
	case akCell:
		return fmt.Sprintf("(select %s %s)", ex.compGet(st, a.comp), a.base)
	case akElem:
		if a.comp == "" {
			at := a.rootT.Underlying().(*types.Array)
			return fmt.Sprintf("(select %s %s)", ex.compGet(st, ex.g.arrComp(at.Elem())), a.base)
		}
		return fmt.Sprintf("(select (select %s %s) %s)", ex.compGet(st, a.comp), a.base, a.idx)
	}
	return ""
}

func (ex *Exec) compGet(st *State, comp string) string {
	if ex.pureMode {
		ex.heapArgs[comp] = true
		return ex.g.compSym(comp, "e0")
	}
	return ex.g.get(st, comp)
}

func (ex *Exec) rootStore(st *State, a *Addr, v string) {
	if ex.pureMode && a.kind != akLocal {
		unsup("heap store in pure function")
	}
	switch a.kind {
	case akLocal:
		st.locals[a.local] = ex.bind("L:"+strings.Trim(a.local, "|"), ex.g.sortOf(a.rootT), v)
	case akField:
		if a.comp == "" {
			ex.storeStruct(st, a.rootT, a.base, v)
			return
		}
		ex.g.set(st, a.comp, fmt.Sprintf("(store %s %s %s)", ex.g.get(st, a.comp), a.base, v))
	case akCell:
		ex.g.set(st, a.comp, fmt.Sprintf("(store %s %s %s)", ex.g.get(st, a.comp), a.base, v))
	case akElem:
		if a.comp == "" {
			at := a.rootT.Underlying().(*types.Array)
			c := ex.g.arrComp(at.Elem())
			ex.g.set(st, c, fmt.Sprintf("(store %s %s %s)", ex.g.get(st, c), a.base, v))
			return
		}
		old := ex.g.get(st, a.comp)
		ex.g.set(st, a.comp, fmt.Sprintf("(store %s %s (store (select %s %s) %s %s))", old, a.base, old, a.base, a.idx, v))
	}
}

func (ex *Exec) pathGet(root string, path []pstep) string {
	v := root
	for _, p := range path {
		if p.isIdx {
			v = fmt.Sprintf("(select %s %s)", v, p.idx)
		} else {
			v = ex.g.fieldSel(p.structT, p.field, v)
		}
	}
	return v
}

func (ex *Exec) pathSet(root string, path []pstep, nv string) string {
	if len(path) == 0 {
		return nv
	}
	p := path[0]
	if p.isIdx {
		inner := ex.pathSet(fmt.Sprintf("(select %s %s)", root, p.idx), path[1:], nv)
		return fmt.Sprintf("(store %s %s %s)", root, p.idx, inner)
	}
	inner := ex.pathSet(ex.g.fieldSel(p.structT, p.field, root), path[1:], nv)
	return ex.g.updField(p.structT, p.field, root, inner)
}

func (ex *Exec) load(st *State, a *Addr) string {
	return ex.pathGet(ex.rootLoad(st, a), a.path)
}

func (ex *Exec) store(st *State, a *Addr, v string) {
	if len(a.path) == 0 {
		ex.rootStore(st, a, v)
		return
	}
	ex.rootStore(st, a, ex.pathSet(ex.rootLoad(st, a), a.path, v))
}

// loadStruct builds the datatype value of a heap struct object at ref.
func (ex *Exec) loadStruct(st *State, t types.Type, ref string) string {
	s := t.Underlying().(*types.Struct)
	var vals []string
	for i := 0; i < s.NumFields(); i++ {
		ft := s.Field(i).Type()
		if _, isSt := ft.Underlying().(*types.Struct); isSt {
			vals = append(vals, ex.loadStruct(st, ft, ex.g.subRef(t, i, ref)))
		} else {
			vals = append(vals, fmt.Sprintf("(select %s %s)", ex.compGet(st, ex.g.fieldComp(t, i)), ref))
		}
	}
	return ex.g.mkStruct(t, vals)
}

func (ex *Exec) storeStruct(st *State, t types.Type, ref, v string) {
	s := t.Underlying().(*types.Struct)
	for i := 0; i < s.NumFields(); i++ {
		ft := s.Field(i).Type()
		fv := ex.g.fieldSel(t, i, v)
		if _, isSt := ft.Underlying().(*types.Struct); isSt {
			ex.storeStruct(st, ft, ex.g.subRef(t, i, ref), fv)
		} else {
			c := ex.g.fieldComp(t, i)
			ex.g.set(st, c, fmt.Sprintf("(store %s %s %s)", ex.g.get(st, c), ref, fv))
		}
	}
}

// ---------- allocation ----------

func (ex *Exec) newRef(st *State, prefix string) string {
	if ex.pureMode {
		unsup("allocation in pure function")
	}
	r := ex.g.freshConst(prefix, "Int")
	al := ex.g.allocComp()
	cur := ex.g.get(st, al)
	ex.g.addFact(fmt.Sprintf("(and (not (= %s 0)) (not (select %s %s)))", r, cur, r))
	if ex.g.declared["fn:refkind"] {
		ex.g.addFact(fmt.Sprintf("(= (refkind %s) 0)", r))
	}
	ex.g.set(st, al, fmt.Sprintf("(store %s %s true)", cur, r))
	return r
}

// assumeTypeAlloc: every reference inside a value of type t is nil or allocated in the current alloc set.
func (ex *Exec) assumeTypeAlloc(st *State, pc string, t types.Type, term string) {
	if ex.pureMode {
		return
	}
	ex.g.allocComp()
	if f := ex.g.allocFact(t, term, ex.g.get(st, "alloc"), 0); f != "" {
		ex.g.assume(pc, f)
	}
}

// allocAdvance: a callee may have allocated objects: the alloc set grows by an unknown amount.
func (ex *Exec) allocAdvance(st *State) {
	if ex.pureMode {
		return
	}
	g := ex.g
	g.allocComp()
	before := g.get(st, "alloc")
	g.havocComp(st, "alloc")
	g.addFact(fmt.Sprintf("(forall ((r Int)) (! (=> (select %s r) (select %s r)) :pattern ((select %s r))))", before, g.get(st, "alloc"), before))
}

func (ex *Exec) assumeAllocated(st *State, pc, ref string) {
	if ex.pureMode {
		return
	}
	al := ex.g.allocComp()
	ex.g.assume(pc, fmt.Sprintf("(or (= %s 0) (select %s %s))", ref, ex.g.get(st, al), ref))
}

// ---------- integer ops ----------

func (ex *Exec) binop(op token.Token, xt types.Type, x, y string, yt types.Type) string {
	g := ex.g
	xu := xt.Underlying()
	if b, ok := xu.(*types.Basic); ok && b.Info()&types.IsBoolean != 0 {
		switch op {
		case token.EQL:
			return fmt.Sprintf("(= %s %s)", x, y)
		case token.NEQ:
			return fmt.Sprintf("(not (= %s %s))", x, y)
		case token.LAND, token.AND:
			return fmt.Sprintf("(and %s %s)", x, y)
		case token.LOR, token.OR:
			return fmt.Sprintf("(or %s %s)", x, y)
		}
	}
	if b, ok := xu.(*types.Basic); ok && b.Info()&types.IsString != 0 {
		switch op {
		case token.EQL:
			return fmt.Sprintf("(= %s %s)", x, y)
		case token.NEQ:
			return fmt.Sprintf("(not (= %s %s))", x, y)
		case token.ADD:
			g.needStrCat()
			return fmt.Sprintf("(st.cat %s %s)", x, y)
		case token.LSS:
			g.needStrLt()
			return fmt.Sprintf("(st.lt %s %s)", x, y)
		case token.GTR:
			g.needStrLt()
			return fmt.Sprintf("(st.lt %s %s)", y, x)
		case token.LEQ:
			g.needStrLt()
			return fmt.Sprintf("(not (st.lt %s %s))", y, x)
		case token.GEQ:
			g.needStrLt()
			return fmt.Sprintf("(not (st.lt %s %s))", x, y)
		}
	}
	bits, signed, isInt := intInfo(xt)
	if !isInt {
		switch op {
		case token.EQL:
			return ex.eqTerm(xt, x, y)
		case token.NEQ:
			return fmt.Sprintf("(not %s)", ex.eqTerm(xt, x, y))
		}
		if b, ok := xu.(*types.Basic); ok && b.Info()&types.IsFloat != 0 {
			switch op {
			case token.ADD:
				return fmt.Sprintf("(+ %s %s)", x, y)
			case token.SUB:
				return fmt.Sprintf("(- %s %s)", x, y)
			case token.MUL:
				g.decl("fn:fmul", "(declare-fun fmul (Real Real) Real)")
				return fmt.Sprintf("(fmul %s %s)", x, y)
			case token.QUO:
				g.decl("fn:fdiv", "(declare-fun fdiv (Real Real) Real)")
				return fmt.Sprintf("(fdiv %s %s)", x, y)
			case token.LSS:
				return fmt.Sprintf("(< %s %s)", x, y)
			case token.LEQ:
				return fmt.Sprintf("(<= %s %s)", x, y)
			case token.GTR:
				return fmt.Sprintf("(> %s %s)", x, y)
			case token.GEQ:
				return fmt.Sprintf("(>= %s %s)", x, y)
			}
		}
		unsup("binop %s on %s", op, xt)
	}
	if g.mode == "bv" {
		// shift amount width adaptation
		if op == token.SHL || op == token.SHR {
			yb, _, _ := intInfo(yt)
			if yb < bits {
				y = fmt.Sprintf("((_ zero_extend %d) %s)", bits-yb, y)
			} else if yb > bits {
				y = fmt.Sprintf("((_ extract %d 0) %s)", bits-1, y)
			}
		}
		m := map[token.Token][2]string{
			token.ADD: {"bvadd", "bvadd"}, token.SUB: {"bvsub", "bvsub"}, token.MUL: {"bvmul", "bvmul"},
			token.QUO: {"bvudiv", "bvsdiv"}, token.REM: {"bvurem", "bvsrem"},
			token.AND: {"bvand", "bvand"}, token.OR: {"bvor", "bvor"}, token.XOR: {"bvxor", "bvxor"},
			token.SHL: {"bvshl", "bvshl"}, token.SHR: {"bvlshr", "bvashr"},
			token.LSS: {"bvult", "bvslt"}, token.LEQ: {"bvule", "bvsle"}, token.GTR: {"bvugt", "bvsgt"}, token.GEQ: {"bvuge", "bvsge"},
		}
		switch op {
		case token.EQL:
			return fmt.Sprintf("(= %s %s)", x, y)
		case token.NEQ:
			return fmt.Sprintf("(not (= %s %s))", x, y)
		case token.AND_NOT:
			return fmt.Sprintf("(bvand %s (bvnot %s))", x, y)
		}
		if e, ok := m[op]; ok {
			o := e[0]
			if signed {
				o = e[1]
			}
			return fmt.Sprintf("(%s %s %s)", o, x, y)
		}
		unsup("bv binop %s", op)
	}
	// int mode
	M := pow2(bits).String()
	switch op {
	case token.EQL:
		return fmt.Sprintf("(= %s %s)", x, y)
	case token.NEQ:
		return fmt.Sprintf("(not (= %s %s))", x, y)
	case token.LSS:
		return fmt.Sprintf("(< %s %s)", x, y)
	case token.LEQ:
		return fmt.Sprintf("(<= %s %s)", x, y)
	case token.GTR:
		return fmt.Sprintf("(> %s %s)", x, y)
	case token.GEQ:
		return fmt.Sprintf("(>= %s %s)", x, y)
	case token.ADD:
		if signed {
			g.note("int mode: signed + - * assumed not to overflow")
			return fmt.Sprintf("(+ %s %s)", x, y)
		}
		return fmt.Sprintf("(ite (< (+ %s %s) %s) (+ %s %s) (- (+ %s %s) %s))", x, y, M, x, y, x, y, M)
	case token.SUB:
		if signed {
			g.note("int mode: signed + - * assumed not to overflow")
			return fmt.Sprintf("(- %s %s)", x, y)
		}
		return fmt.Sprintf("(ite (>= %s %s) (- %s %s) (+ (- %s %s) %s))", x, y, x, y, x, y, M)
	case token.MUL:
		if signed {
			g.note("int mode: signed + - * assumed not to overflow")
			return fmt.Sprintf("(* %s %s)", x, y)
		}
		return fmt.Sprintf("(mod (* %s %s) %s)", x, y, M)
	case token.QUO:
		g.needTdiv()
		return fmt.Sprintf("(tdiv %s %s)", x, y)
	case token.REM:
		g.needTdiv()
		return fmt.Sprintf("(tmod %s %s)", x, y)
	case token.SHL:
		if k, ok := smallConst(y); ok {
			if signed {
				return fmt.Sprintf("(* %s %s)", x, pow2(k).String())
			}
			return fmt.Sprintf("(mod (* %s %s) %s)", x, pow2(k).String(), M)
		}
	case token.SHR:
		if k, ok := smallConst(y); ok {
			return fmt.Sprintf("(div %s %s)", x, pow2(k).String())
		}
	}
	// uninterpreted bit operation
	opName := map[token.Token]string{token.AND: "and", token.OR: "or", token.XOR: "xor", token.SHL: "shl", token.SHR: "shr", token.AND_NOT: "andnot"}[op]
	if opName == "" {
		opName = fmt.Sprintf("op%d", int(op))
	}
	fn := fmt.Sprintf("|bitop:%s:%d|", opName, bits)
	g.decl("fn:"+fn, fmt.Sprintf("(declare-fun %s (Int Int) Int)", fn))
	g.note("int mode: bit operation " + op.String() + " left uninterpreted")
	r := fmt.Sprintf("(%s %s %s)", fn, x, y)
	return r
}

func smallConst(s string) (int, bool) {
	var k int
	if _, err := fmt.Sscanf(s, "%d", &k); err == nil && fmt.Sprint(k) == s && k >= 0 && k < 64 {
		return k, true
	}
	return 0, false
}

func (g *Gen) needTdiv() {
	g.decl("fn:tdiv", "(define-fun tdiv ((a Int) (b Int)) Int (ite (>= a 0) (ite (> b 0) (div a b) (- (div a (- b)))) (ite (> b 0) (- (div (- a) b)) (div (- a) (- b)))))")
	g.decl("fn:tmod", "(define-fun tmod ((a Int) (b Int)) Int (- a (* b (tdiv a b))))")
}

func (g *Gen) needStrCat() {
	g.decl("fn:st.cat", "(declare-fun st.cat (Str Str) Str)")
	g.decl("ax:st.cat", "(assert (forall ((a Str) (b Str)) (! (= (st.len (st.cat a b)) (+ (st.len a) (st.len b))) :pattern ((st.cat a b)))))")
}

func (g *Gen) needStrLt() {
	g.decl("fn:st.lt", "(declare-fun st.lt (Str Str) Bool)")
	g.decl("ax:st.lt1", "(assert (forall ((a Str)) (! (not (st.lt a a)) :pattern ((st.lt a a)))))")
	g.decl("ax:st.lt2", "(assert (forall ((a Str) (b Str) (c Str)) (! (=> (and (st.lt a b) (st.lt b c)) (st.lt a c)) :pattern ((st.lt a b) (st.lt b c)))))")
	g.decl("ax:st.lt3", "(assert (forall ((a Str) (b Str)) (! (or (= a b) (st.lt a b) (st.lt b a)) :pattern ((st.lt a b)))))")
	g.note("string order: uninterpreted strict total order (irreflexive, transitive, total)")
}

func (ex *Exec) eqTerm(t types.Type, x, y string) string {
	switch t.Underlying().(type) {
	case *types.Interface:
		if y == "(mk-iface 0 0)" {
			return fmt.Sprintf("(= (i.tag %s) 0)", x)
		}
		if x == "(mk-iface 0 0)" {
			return fmt.Sprintf("(= (i.tag %s) 0)", y)
		}
	case *types.Slice:
		// only comparison with nil is legal in Go
		if y == "(mk-slice 0 0 0 0)" {
			return fmt.Sprintf("(= (s.arr %s) 0)", x)
		}
		if x == "(mk-slice 0 0 0 0)" {
			return fmt.Sprintf("(= (s.arr %s) 0)", y)
		}
	}
	return fmt.Sprintf("(= %s %s)", x, y)
}

func (ex *Exec) convert(from, to types.Type, x string) string {
	g := ex.g
	fb, fs, fok := intInfo(from)
	tb, ts, tok := intInfo(to)
	if fok && tok {
		if g.mode == "bv" {
			switch {
			case tb == fb:
				return x
			case tb < fb:
				return fmt.Sprintf("((_ extract %d 0) %s)", tb-1, x)
			default:
				if fs {
					return fmt.Sprintf("((_ sign_extend %d) %s)", tb-fb, x)
				}
				return fmt.Sprintf("((_ zero_extend %d) %s)", tb-fb, x)
			}
		}
		// int mode
		if fs == ts && tb >= fb {
			return x
		}
		if !fs && ts && tb > fb {
			return x
		}
		M := pow2(tb).String()
		if !ts {
			return fmt.Sprintf("(mod %s %s)", x, M)
		}
		H := pow2(tb - 1).String()
		return fmt.Sprintf("(ite (< (mod %s %s) %s) (mod %s %s) (- (mod %s %s) %s))", x, M, H, x, M, x, M, M)
	}
	if types.Identical(from.Underlying(), to.Underlying()) {
		return x
	}
	fsort, tsort := g.sortOf(from), g.sortOf(to)
	// string <-> []byte, numeric <-> float etc: uninterpreted conversion function (deterministic)
	fn := fmt.Sprintf("|conv:%s->%s|", mangleType(from), mangleType(to))
	g.decl("fn:"+fn, fmt.Sprintf("(declare-fun %s (%s) %s)", fn, fsort, tsort))
	if _, isSl := from.Underlying().(*types.Slice); isSl {
		// depends on contents: not a function of the slice header only
		if ex.pureMode {
			unsup("slice conversion in pure function")
		}
		g.note("conversion " + fn + " of slice contents treated as arbitrary value")
		return ex.freshVal("conv", to)
	}
	if _, isSl := to.Underlying().(*types.Slice); isSl {
		if ex.pureMode {
			unsup("conversion to slice in pure function")
		}
		sl := ex.freshSliceOfLen(nil, to, fmt.Sprintf("(st.len %s)", x))
		// []byte(s): the CONTENT of the fresh slice is the string's bytes. Stated through st.ofbytes over the current
		// byte-array component, so the link is lost (never wrongly kept) as soon as any byte array is written.
		if sli, ok := to.Underlying().(*types.Slice); ok && ex.curState != nil {
			if b, ok := sli.Elem().Underlying().(*types.Basic); ok && b.Kind() == types.Uint8 {
				if _, isStr := from.Underlying().(*types.Basic); isStr {
					g.addFact(fmt.Sprintf("(= %s %s)", ex.ofBytes(ex.curState, sli.Elem(), sl), x))
				}
			}
		}
		return sl
	}
	return fmt.Sprintf("(%s %s)", fn, x)
}

// ofBytes: the string spelled by the bytes of a []byte slice in state st (uninterpreted in the contents).
func (ex *Exec) ofBytes(st *State, elem types.Type, sl string) string {
	g := ex.g
	comp := g.arrComp(elem)
	g.decl("fn:st.ofbytes", fmt.Sprintf("(declare-fun st.ofbytes ((Array Int %s) Int Int) Str)", g.sortOf(elem)))
	return fmt.Sprintf("(st.ofbytes (select %s (s.arr %s)) (s.off %s) (s.len %s))", ex.compGet(st, comp), sl, sl, sl)
}

func (ex *Exec) freshSliceOfLen(st *State, t types.Type, n string) string {
	r := ex.g.freshConst("arr", "Int")
	ex.g.addFact(fmt.Sprintf("(not (= %s 0))", r))
	return fmt.Sprintf("(mk-slice %s 0 %s %s)", r, n, n)
}

func (ex *Exec) intConst(n int64, t types.Type) string {
	bits, _, ok := intInfo(t)
	if !ok {
		bits = 64
	}
	return ex.g.intLit(big.NewInt(n), bits)
}

// lenTerm converts an Int-valued length to the sort of Go int in the current mode.
func (ex *Exec) fromMathInt(term string) string {
	if ex.g.mode == "bv" {
		return fmt.Sprintf("((_ int2bv 64) %s)", term)
	}
	return term
}

func (ex *Exec) toMathInt(term string, t types.Type) string {
	if ex.g.mode == "bv" {
		_, signed, _ := intInfo(t)
		if signed {
			// two's complement
			bits, _, _ := intInfo(t)
			return fmt.Sprintf("(let ((u (bv2nat %s))) (ite (< u %s) u (- u %s)))", term, pow2(bits-1).String(), pow2(bits).String())
		}
		return fmt.Sprintf("(bv2nat %s)", term)
	}
	return term
}
