package main

// Replay of solver counterexamples against the real code: the model is projected to the inputs
// of a lemma (or of a function whose inputs are plain values), a Go test is generated that builds
// those inputs, evaluates the violated clause with the real functions, and is injected into the
// package with `go test -overlay` (nothing is written into the repository).

import (
	"encoding/json"
	"fmt"
	"go/types"
	"math/big"
	"os"
	"os/exec"
	"path/filepath"
	"strings"
	"time"
)

// ---- tiny s-expression reader ----

type sx struct {
	atom string
	list []*sx
	isL  bool
}

func parseSx(s string) []*sx {
	var out []*sx
	i := 0
	var rd func() *sx
	skip := func() {
		for i < len(s) {
			if s[i] == ';' {
				for i < len(s) && s[i] != '\n' {
					i++
				}
			} else if s[i] == ' ' || s[i] == '\n' || s[i] == '\t' || s[i] == '\r' {
				i++
			} else {
				break
			}
		}
	}
	rd = func() *sx {
		skip()
		if i >= len(s) {
			return nil
		}
		if s[i] == '(' {
			i++
			n := &sx{isL: true}
			for {
				skip()
				if i >= len(s) {
					return n
				}
				if s[i] == ')' {
					i++
					return n
				}
				c := rd()
				if c == nil {
					return n
				}
				n.list = append(n.list, c)
			}
		}
		if s[i] == ')' {
			i++
			return nil
		}
		j := i
		if s[i] == '|' {
			j = i + 1
			for j < len(s) && s[j] != '|' {
				j++
			}
			j++
		} else if s[i] == '"' {
			j = i + 1
			for j < len(s) && s[j] != '"' {
				j++
			}
			j++
		} else {
			for j < len(s) && !strings.ContainsRune(" \n\t\r()", rune(s[j])) {
				j++
			}
		}
		a := s[i:j]
		i = j
		return &sx{atom: a}
	}
	for {
		skip()
		if i >= len(s) {
			break
		}
		n := rd()
		if n != nil {
			out = append(out, n)
		}
	}
	return out
}

func modelDefs(model string) map[string]*sx {
	defs := map[string]*sx{}
	var walk func(n *sx)
	walk = func(n *sx) {
		if n == nil || !n.isL {
			return
		}
		if len(n.list) >= 5 && n.list[0].atom == "define-fun" && n.list[2].isL && len(n.list[2].list) == 0 {
			defs[n.list[1].atom] = n.list[4]
			return
		}
		for _, c := range n.list {
			walk(c)
		}
	}
	for _, n := range parseSx(model) {
		walk(n)
	}
	return defs
}

func sxInt(n *sx) (*big.Int, bool) {
	if n == nil {
		return nil, false
	}
	if !n.isL {
		a := n.atom
		if strings.HasPrefix(a, "#x") {
			v, ok := new(big.Int).SetString(a[2:], 16)
			return v, ok
		}
		if strings.HasPrefix(a, "#b") {
			v, ok := new(big.Int).SetString(a[2:], 2)
			return v, ok
		}
		v, ok := new(big.Int).SetString(a, 10)
		return v, ok
	}
	if len(n.list) == 2 && n.list[0].atom == "-" {
		v, ok := sxInt(n.list[1])
		if ok {
			return new(big.Int).Neg(v), true
		}
	}
	if len(n.list) == 3 && n.list[0].atom == "_" && strings.HasPrefix(n.list[1].atom, "bv") {
		v, ok := new(big.Int).SetString(n.list[1].atom[2:], 10)
		return v, ok
	}
	return nil, false
}

// goLiteral renders a model value of Go type t as Go source; ok=false when not constructible.
func goLiteral(t types.Type, n *sx, qual types.Qualifier) (string, bool) {
	switch u := t.Underlying().(type) {
	case *types.Basic:
		if u.Info()&types.IsBoolean != 0 {
			if n.atom == "true" || n.atom == "false" {
				return n.atom, true
			}
			return "", false
		}
		if bits, signed, ok := intInfo(u); ok {
			v, ok := sxInt(n)
			if !ok {
				return "", false
			}
			if signed && v.Cmp(pow2(bits-1)) >= 0 {
				v = new(big.Int).Sub(v, pow2(bits))
			}
			return fmt.Sprintf("%s(%s)", types.TypeString(t, qual), v.String()), true
		}
		return "", false
	case *types.Struct:
		if !n.isL {
			if u.NumFields() == 0 {
				return types.TypeString(t, qual) + "{}", true
			}
			return "", false
		}
		if len(n.list) != u.NumFields()+1 {
			return "", false
		}
		var fs []string
		for i := 0; i < u.NumFields(); i++ {
			l, ok := goLiteral(u.Field(i).Type(), n.list[i+1], qual)
			if !ok {
				return "", false
			}
			fs = append(fs, fmt.Sprintf("%s: %s", u.Field(i).Name(), l))
		}
		return fmt.Sprintf("%s{%s}", types.TypeString(t, qual), strings.Join(fs, ", ")), true
	}
	return "", false
}

// exprToGo renders a quantifier-free contract expression as Go source.
func exprToGo(e Expr) (string, bool) {
	switch x := e.(type) {
	case *EIdent:
		if strings.HasPrefix(x.Name, "#") {
			return "", false
		}
		return x.Name, true
	case *EInt:
		return x.Lit, true
	case *EString:
		return x.Lit, true
	case *EBool:
		return fmt.Sprint(x.V), true
	case *ENil:
		return "nil", true
	case *EUnary:
		s, ok := exprToGo(x.X)
		return x.Op + "(" + s + ")", ok
	case *EDeref:
		s, ok := exprToGo(x.X)
		return "*(" + s + ")", ok
	case *EBinary:
		a, ok1 := exprToGo(x.X)
		b, ok2 := exprToGo(x.Y)
		if !ok1 || !ok2 {
			return "", false
		}
		switch x.Op {
		case "==>":
			return fmt.Sprintf("(!(%s) || (%s))", a, b), true
		case "<==>":
			return fmt.Sprintf("((%s) == (%s))", a, b), true
		case "in":
			return fmt.Sprintf("func() bool { _, ok := (%s)[%s]; return ok }()", b, a), true
		}
		return fmt.Sprintf("(%s %s %s)", a, x.Op, b), true
	case *ESel:
		s, ok := exprToGo(x.X)
		return s + "." + x.Name, ok
	case *EIndex:
		a, ok1 := exprToGo(x.X)
		b, ok2 := exprToGo(x.I)
		return a + "[" + b + "]", ok1 && ok2
	case *ECall:
		f, ok := exprToGo(x.Fun)
		if !ok {
			return "", false
		}
		if id, isId := x.Fun.(*EIdent); isId {
			switch id.Name {
			case "ite":
				if len(x.Args) != 3 {
					return "", false
				}
				c, _ := exprToGo(x.Args[0])
				a, _ := exprToGo(x.Args[1])
				b, _ := exprToGo(x.Args[2])
				return fmt.Sprintf("func() any { if %s { return %s }; return %s }()", c, a, b), false
			case "elem", "keys", "union", "minus", "inter", "subset", "disjoint", "single", "interval", "empty", "allocated", "dynType", "typeTag":
				return "", false
			}
		}
		var as []string
		for _, a := range x.Args {
			s, ok := exprToGo(a)
			if !ok {
				return "", false
			}
			as = append(as, s)
		}
		return f + "(" + strings.Join(as, ", ") + ")", true
	case *ELit:
		var fs []string
		for i := range x.Fields {
			s, ok := exprToGo(x.Vals[i])
			if !ok {
				return "", false
			}
			fs = append(fs, x.Fields[i]+": "+s)
		}
		return x.Type.String() + "{" + strings.Join(fs, ", ") + "}", true
	}
	return "", false
}

func findContractByFuncName(P *Program, fname string) *Contract {
	for _, c := range P.Ordered {
		switch c.Kind {
		case "lemma":
			if shortKey(c.Pkg)+".lemma."+c.Name == fname {
				return c
			}
		case "func":
			if shortKey(c.Key) == fname {
				return c
			}
		}
	}
	return nil
}

// tryReplay returns true when the violation was reproduced on the real code.
func tryReplay(P *Program, o *Obligation, repo, scratch string, rb *strings.Builder) bool {
	c := findContractByFuncName(P, o.Func)
	if c == nil {
		fmt.Fprintf(rb, "\nreplay: no contract found for %s\n", o.Func)
		return false
	}
	defs := modelDefs(o.Model)
	var pkgTypes *types.Package
	var pkgDir string
	for _, p := range P.Pkgs {
		if p.PkgPath == c.Pkg {
			pkgTypes = p.Types
			pkgDir = strings.TrimPrefix(p.PkgPath, modPath+"/")
		}
	}
	if pkgTypes == nil {
		return false
	}
	qual := func(p *types.Package) string {
		if p == pkgTypes {
			return ""
		}
		return p.Name()
	}
	var setup []string
	var clause string
	env := &Env{g: o.g, vars: map[string]Val{}, pkgPath: c.Pkg}
	switch {
	case c.Kind == "lemma":
		for _, b := range c.Params {
			var gt GType
			ok := true
			func() {
				defer func() {
					if recover() != nil {
						ok = false
					}
				}()
				gt = env.resolveType(b.Type)
			}()
			if !ok || gt.T == nil {
				fmt.Fprintf(rb, "\nreplay: parameter %s not constructible\n", b.Name)
				return false
			}
			d, has := defs["|l:"+b.Name+"|"]
			lit := ""
			if has {
				lit, ok = goLiteral(gt.T, d, qual)
			} else {
				ok = false
			}
			if !ok {
				fmt.Fprintf(rb, "\nreplay: model value of %s not constructible as Go value\n", b.Name)
				return false
			}
			setup = append(setup, fmt.Sprintf("\t%s := %s", b.Name, lit), fmt.Sprintf("\t_ = %s", b.Name))
		}
		var reqs []string
		for _, r := range c.Req {
			s, ok := exprToGo(r.E)
			if !ok {
				fmt.Fprintf(rb, "\nreplay: requires clause not executable\n")
				return false
			}
			reqs = append(reqs, s)
		}
		for _, e := range c.Ens {
			if e.Label == o.Label {
				s, ok := exprToGo(e.E)
				if !ok {
					fmt.Fprintf(rb, "\nreplay: clause not executable (quantifier or ghost construct)\n")
					return false
				}
				clause = s
			}
		}
		if len(reqs) > 0 {
			clause = fmt.Sprintf("(!(%s) || (%s))", strings.Join(reqs, " && "), clause)
		}
	case c.Kind == "func" && o.Kind == "post":
		fn := P.Funcs[c.Key]
		if fn == nil || len(fn.FreeVars) > 0 {
			return false
		}
		var args []string
		recvCall := ""
		for i, p := range fn.Params {
			d, has := defs["|p:"+p.Name()+"|"]
			if !has {
				fmt.Fprintf(rb, "\nreplay: no model value for parameter %s\n", p.Name())
				return false
			}
			lit, ok := goLiteral(p.Type(), d, qual)
			if !ok {
				fmt.Fprintf(rb, "\nreplay: parameter %s (%s) not constructible from the model (heap or abstract value)\n", p.Name(), p.Type())
				return false
			}
			setup = append(setup, fmt.Sprintf("\t%s := %s", p.Name(), lit), fmt.Sprintf("\t_ = %s", p.Name()))
			if i == 0 && fn.Signature.Recv() != nil {
				recvCall = p.Name() + "."
			} else {
				args = append(args, p.Name())
			}
		}
		rn := resultNames(fn.Signature)
		call := fmt.Sprintf("%s%s(%s)", recvCall, fn.Name(), strings.Join(args, ", "))
		if len(rn) > 0 {
			setup = append(setup, fmt.Sprintf("\t%s := %s", strings.Join(rn, ", "), call))
			for _, r := range rn {
				setup = append(setup, "\t_ = "+r)
			}
		} else {
			setup = append(setup, "\t"+call)
		}
		for _, e := range c.Ens {
			if e.Label == o.Label {
				s, ok := exprToGo(e.E)
				if !ok || strings.Contains(e.Src, "old(") {
					fmt.Fprintf(rb, "\nreplay: clause not executable\n")
					return false
				}
				clause = s
			}
		}
		var reqs []string
		for _, r := range c.Req {
			s, ok := exprToGo(r.E)
			if !ok {
				return false
			}
			reqs = append(reqs, s)
		}
		if len(reqs) > 0 {
			clause = fmt.Sprintf("(!(%s) || (%s))", strings.Join(reqs, " && "), clause)
		}
	default:
		fmt.Fprintf(rb, "\nreplay: obligation kind %s has no executable replay\n", o.Kind)
		return false
	}
	if clause == "" {
		return false
	}
	src := fmt.Sprintf("package %s\n\nimport \"testing\"\n\n// generated by govc: replay of obligation %s\nfunc TestGovcReplay(t *testing.T) {\n%s\n\tif !(%s) {\n\t\tt.Fatalf(\"GOVC-REPLAY-VIOLATED: clause is false on the real code\")\n\t}\n}\n",
		pkgTypes.Name(), o.Name, strings.Join(setup, "\n"), clause)
	testFile := filepath.Join(scratch, sanitizeFile(o.Name)+"_replay_test.go")
	os.WriteFile(testFile, []byte(src), 0o644)
	ov := map[string]any{"Replace": map[string]string{filepath.Join(repo, pkgDir, "zz_govc_replay_test.go"): testFile}}
	ovData, _ := json.Marshal(ov)
	ovFile := filepath.Join(scratch, sanitizeFile(o.Name)+"_overlay.json")
	os.WriteFile(ovFile, ovData, 0o644)
	cmd := exec.Command("go", "test", "-overlay", ovFile, "-vet=off", "-count=1", "-timeout", "120s", "-run", "^TestGovcReplay$", "./"+pkgDir)
	cmd.Dir = repo
	cmd.Env = goEnv()
	t0 := time.Now()
	out, _ := cmd.CombinedOutput()
	fmt.Fprintf(rb, "\n--- replay on the real code (%.1fs) ---\ncommand: (cd %s && go test -overlay <ov> -vet=off -count=1 -timeout 120s -run '^TestGovcReplay$' ./%s)\ntest file mapped to %s/zz_govc_replay_test.go:\n%s\noutput:\n%s\n",
		time.Since(t0).Seconds(), repo, pkgDir, pkgDir, src, truncate(string(out), 4000))
	return strings.Contains(string(out), "GOVC-REPLAY-VIOLATED")
}
