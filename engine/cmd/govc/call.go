package main

import (
	"fmt"
	"go/token"
	"go/types"
	"regexp"
	"strings"

	"golang.org/x/tools/go/ssa"
)

func calleeShortName(c *ssa.CallCommon) string {
	if c.IsInvoke() {
		return c.Method.Name()
	}
	switch v := c.Value.(type) {
	case *ssa.Function:
		if v.Parent() != nil {
			return "func"
		}
		return v.Name()
	case *ssa.Builtin:
		return v.Name()
	case *ssa.MakeClosure:
		return "func"
	}
	return "dynamic"
}

// calleeKey returns the contract key of a call, and the *ssa.Function if static.
func (ex *Exec) calleeKey(c *ssa.CallCommon) (string, *ssa.Function) {
	if c.IsInvoke() {
		return methodKey(c.Method), nil
	}
	switch v := c.Value.(type) {
	case *ssa.Function:
		return funcKey(v), v
	case *ssa.MakeClosure:
		f := v.Fn.(*ssa.Function)
		return funcKey(f), f
	}
	if mc, ok := ex.closures[c.Value]; ok {
		f := mc.Fn.(*ssa.Function)
		return funcKey(f), f
	}
	// call of a function-typed PARAMETER (callback): contract keyed "<function>#<param>", if any
	if p, ok := c.Value.(*ssa.Parameter); ok {
		k := funcKey(ex.fn) + "#" + p.Name()
		if _, has := ex.P.Contracts[k]; has {
			return k, nil
		}
	}
	return "", nil
}

var inertRe = []*regexp.Regexp{
	regexp.MustCompile(`^github\.com/couchbase/sync_gateway/base\.(Infof|Debugf|Warnf|Errorf|Tracef|Panicf|Fatalf|Consolef|Audit|AssertfCtx|DebugfCtx|InfofCtx|WarnfCtx|ErrorfCtx|TracefCtx|ConsolefCtx|AssertLogContains)`),
	regexp.MustCompile(`^github\.com/couchbase/sync_gateway/base\.(UD|MD|SD|NewLogContextKey|LogDebugEnabled|LogTraceEnabled|LogInfoEnabled|ToArrayOfInterface|RedactBasicAuthURLUserAndPassword)$`),
	regexp.MustCompile(`^github\.com/couchbase/sync_gateway/base\.(Redactor|RedactorSlice|RedactorFunc|UserData|MetaData|SystemData)\.`),
	regexp.MustCompile(`^github\.com/couchbase/sync_gateway/base\.(SgwIntStat|SgwFloatStat|SgwDurStat|SgwBoolStat|SgwStat|AtomicBool|AtomicInt)\.`),
	regexp.MustCompile(`^github\.com/couchbase/sync_gateway/base\.(LogKeyMask|LogKey|LogLevel)\.`),
	regexp.MustCompile(`^time\.(Now|Since|Until)$`),
	regexp.MustCompile(`^time\.(Time|Duration|Timer|Ticker)\.`),
	regexp.MustCompile(`^sync\.(Mutex|RWMutex|WaitGroup|Once)\.(Lock|Unlock|RLock|RUnlock|Add|Done|Wait)$`),
	regexp.MustCompile(`^(expvar)\.`),
	regexp.MustCompile(`^context\.`),
	regexp.MustCompile(`^fmt\.(Sprintf|Sprint|Sprintln|Errorf)$`),
	regexp.MustCompile(`^errors\.(New|Is|As|Unwrap)$`),
	regexp.MustCompile(`^strings\.`),
	regexp.MustCompile(`^strconv\.`),
	regexp.MustCompile(`^bytes\.(Equal|Compare|HasPrefix|HasSuffix|Index|IndexByte|Contains|TrimSpace|TrimPrefix|TrimSuffix)$`),
	regexp.MustCompile(`^unicode(/utf8)?\.`),
	regexp.MustCompile(`^math(/bits)?\.`),
	regexp.MustCompile(`^github\.com/couchbase/sync_gateway/base\.(HTTPErrorf|RedactErrorf|IsDocNotFoundError|IsCasMismatch|IsTemporaryKvError|ErrorAsHTTPStatus|IsTimeoutError)$`),
	regexp.MustCompile(`^github\.com/google/uuid\.`),
	regexp.MustCompile(`^\.error\.Error$`),
	regexp.MustCompile(`^sync/atomic\.`), // modelled explicitly where the address is a field; otherwise treated below
}

// functions with no heap effect other than writing into the backing arrays of their slice arguments
var inertWritesArgsRe = []*regexp.Regexp{
	regexp.MustCompile(`^encoding/binary\.`),
	regexp.MustCompile(`^encoding/hex\.(Encode|Decode)$`),
	regexp.MustCompile(`^crypto/rand\.Read$`),
}

func inertWritesArgs(key string) bool {
	for _, r := range inertWritesArgsRe {
		if r.MatchString(key) {
			return true
		}
	}
	return false
}

func isInert(key string) bool {
	for _, r := range inertRe {
		if r.MatchString(key) {
			return true
		}
	}
	return false
}

func (ex *Exec) call(st *State, x *ssa.Call) {
	res := ex.callCommon(st, x, x.Common(), x.Type())
	if tt, ok := x.Type().(*types.Tuple); ok {
		_ = tt
		ex.tuples[x] = res
	} else if len(res) == 1 {
		ex.vals[x] = res[0]
	}
}

func (ex *Exec) callCommon(st *State, instr ssa.CallInstruction, c *ssa.CallCommon, rt types.Type) []string {
	g := ex.g
	if b, ok := c.Value.(*ssa.Builtin); ok && !c.IsInvoke() {
		return ex.builtin(st, instr, b, c, rt)
	}
	key, sfn := ex.calleeKey(c)
	var resTypes []types.Type
	if tt, ok := rt.(*types.Tuple); ok {
		for i := 0; i < tt.Len(); i++ {
			resTypes = append(resTypes, tt.At(i).Type())
		}
	} else {
		resTypes = []types.Type{rt}
	}
	// argument terms (receiver first for invoke)
	var args []string
	var argTypes []types.Type
	var argVals []ssa.Value
	if c.IsInvoke() {
		args = append(args, ex.val(c.Value))
		argTypes = append(argTypes, c.Value.Type())
		argVals = append(argVals, c.Value)
	}
	for _, a := range c.Args {
		args = append(args, ex.val(a))
		argTypes = append(argTypes, a.Type())
		argVals = append(argVals, a)
	}
	short := calleeShortName(c)
	ex.callOrd[short]++
	ord := ex.callOrd[short]
	rec := &callRec{callee: key, short: short, ord: ord, pc: ex.pcCur, instr: instr, args: args, blk: ex.curBlk}
	if !ex.pureMode {
		rec.pre = st.clone()
		ex.callLog = append(ex.callLog, rec)
		ex.callAsserts(st, rec, "before")
	}
	con := ex.P.Contracts[key]
	// interior pointers (address of a field / element) passed to a contracted callee: copy-in / copy-out
	// through a fresh cell, so that the callee's `*p` clauses talk about the caller's location. (Assumes the
	// callee reaches that location only through p.)
	type copyBack struct {
		ad  *Addr
		tmp *Addr
	}
	var copies []copyBack
	if con != nil && !con.Pure && !ex.pureMode {
		for i, a := range argVals {
			ad, ok := ex.addrs[a]
			if !ok || ad.kind == akLocal {
				continue
			}
			if ad.kind == akCell && len(ad.path) == 0 {
				continue
			}
			pt, isPtr := a.Type().Underlying().(*types.Pointer)
			if !isPtr {
				continue
			}
			elem := pt.Elem()
			if _, isArr := elem.Underlying().(*types.Array); isArr {
				continue
			}
			r := ex.newRef(st, "argcell")
			var tmp *Addr
			if _, isSt := elem.Underlying().(*types.Struct); isSt {
				tmp = &Addr{kind: akField, comp: "", base: r, rootT: elem, ty: elem}
			} else {
				tmp = &Addr{kind: akCell, comp: g.cellComp(elem), base: r, rootT: elem, ty: elem}
			}
			ex.store(st, tmp, ex.load(st, ad))
			args[i] = r
			copies = append(copies, copyBack{ad, tmp})
			g.note("address of a field/element passed to " + shortKey(key) + ": modelled by copy-in/copy-out (the callee is assumed to reach that location only through the pointer)")
		}
		rec.args = args
		if len(copies) > 0 {
			rec.pre = st.clone()
		}
	}
	if con != nil && ex.c != nil && len(ex.c.OnlyContracts) > 0 && !con.Pure {
		keep := false
		for _, n := range ex.c.OnlyContracts {
			if n == short || strings.HasSuffix(key, "."+n) {
				keep = true
			}
		}
		if !keep {
			con = nil // path contract on a large function: other callees are treated as having no contract
		}
	}
	var results []string
	if key == "sort.Slice" && !ex.pureMode {
		if ex.sortSlice(st, c, rec) {
			rec.post = st.clone()
			rec.factIx = len(g.facts)
			return nil
		}
	}
	switch {
	case con != nil && con.Pure && sfn != nil:
		results = ex.applyPureN(st, sfn, con, args)
	case con != nil:
		results = ex.applyContract(st, con, sfn, c, args, argTypes, resTypes, rec)
	case ex.pureMode:
		unsup("call to %s in pure function (callee has no pure contract)", shortKey(key))
	case key != "" && inertWritesArgs(key):
		ex.allocAdvance(st)
		for _, t := range resTypes {
			results = append(results, ex.freshVal("r."+short, t))
		}
		g.note("no heap effect assumed except writes into slice arguments: " + shortKey(key))
		for i, a := range argVals {
			if sl, ok := a.Type().Underlying().(*types.Slice); ok {
				comp := g.arrComp(sl.Elem())
				cur := g.get(st, comp)
				fv := g.freshConst("hv", fmt.Sprintf("(Array Int %s)", g.sortOf(sl.Elem())))
				g.set(st, comp, fmt.Sprintf("(store %s (s.arr %s) %s)", cur, args[i], fv))
			}
		}
	case key == "sync.Once.Do" && ex.onceDoReadOnly(c):
		g.note("sync.Once.Do with a closure that performs no heap writes (mechanical read-only analysis): no heap effect")
		ex.allocAdvance(st)
	case key != "" && (isInert(key) || (sfn != nil && ex.P.readOnly(sfn))):
		ex.allocAdvance(st)
		for _, t := range resTypes {
			results = append(results, ex.freshVal("r."+short, t))
		}
		if isInert(key) {
			g.note("inert (no heap effect assumed): " + shortKey(key))
		} else {
			g.note("read-only by mechanical analysis (no heap effect; result arbitrary): " + shortKey(key))
		}
		// interior pointers passed to atomics etc.: havoc pointee
		ex.havocEscapedAddrs(st, argVals)
	default:
		for _, t := range resTypes {
			results = append(results, ex.freshVal("r."+short, t))
		}
		if key == "" {
			g.note("dynamic call in " + shortKey(funcKey(ex.fn)) + ": heap havocked, results arbitrary")
		} else {
			g.note("call without contract: " + shortKey(key) + " (heap havocked, results arbitrary)")
		}
		ex.havocEverything(st)
		ex.havocEscapedAddrs(st, argVals)
	}
	for _, cb := range copies {
		ex.store(st, cb.ad, ex.load(st, cb.tmp))
	}
	if !ex.pureMode && !ex.havockedAllAt(rec, st) {
		// a callee that receives function values may call them: their effects are the caller's business
		ex.funcArgEffects(st, key, c, argVals)
	}
	if !ex.pureMode {
		for i, t := range resTypes {
			if i < len(results) {
				ex.assumeTypeAlloc(st, ex.pcCur, t, results[i])
			}
		}
		rec.res = results
		rec.post = st.clone()
		rec.factIx = len(g.facts)
		ex.callAsserts(st, rec, "after")
	}
	if _, isTuple := rt.(*types.Tuple); !isTuple && len(results) == 1 {
		return results
	}
	return results
}

// havocEscapedAddrs: pointer arguments that are interior addresses (or local cells) may be written by the callee.
func (ex *Exec) havocEscapedAddrs(st *State, argVals []ssa.Value) {
	for _, a := range argVals {
		if ad, ok := ex.addrs[a]; ok && ad.kind != akLocal {
			ex.store(st, ad, ex.freshVal("esc", ad.ty))
		}
	}
}

// ---------- builtins ----------

func (ex *Exec) builtin(st *State, instr ssa.CallInstruction, b *ssa.Builtin, c *ssa.CallCommon, rt types.Type) []string {
	g := ex.g
	switch b.Name() {
	case "len", "cap":
		a := c.Args[0]
		av := ex.val(a)
		switch t := a.Type().Underlying().(type) {
		case *types.Slice:
			if b.Name() == "len" {
				return []string{ex.fromMathInt(fmt.Sprintf("(s.len %s)", av))}
			}
			return []string{ex.fromMathInt(fmt.Sprintf("(s.cap %s)", av))}
		case *types.Basic:
			return []string{ex.fromMathInt(fmt.Sprintf("(st.len %s)", av))}
		case *types.Map:
			_, _, ln := ex.mapTerms(st, av, t)
			r := ex.bind("len", "Int", fmt.Sprintf("(ite (= %s 0) 0 %s)", av, ln))
			if !ex.pureMode {
				g.assume(ex.pcCur, fmt.Sprintf("(>= %s 0)", r))
				ex.mapLenFacts(st, av, t, r)
			}
			return []string{ex.fromMathInt(r)}
		case *types.Array:
			return []string{ex.intConst(t.Len(), types.Typ[types.Int])}
		case *types.Pointer:
			if at, ok := t.Elem().Underlying().(*types.Array); ok {
				return []string{ex.intConst(at.Len(), types.Typ[types.Int])}
			}
		case *types.Chan:
			return []string{ex.freshVal("chanlen", types.Typ[types.Int])}
		}
		unsup("len of %s", a.Type())
	case "append":
		return []string{ex.appendOp(st, c)}
	case "copy":
		return []string{ex.copyOp(st, c)}
	case "delete":
		mt := c.Args[0].Type().Underlying().(*types.Map)
		ex.mapDelete(st, mt, ex.val(c.Args[0]), ex.val(c.Args[1]))
		return nil
	case "min", "max":
		t := c.Args[0].Type()
		cur := ex.val(c.Args[0])
		for _, a := range c.Args[1:] {
			av := ex.val(a)
			op := token.LSS
			if b.Name() == "max" {
				op = token.GTR
			}
			cmp := ex.binop(op, t, cur, av, t)
			cur = fmt.Sprintf("(ite %s %s %s)", cmp, cur, av)
		}
		return []string{cur}
	case "print", "println":
		return nil
	case "panic":
		return nil
	case "recover":
		return []string{"(mk-iface 0 0)"}
	case "close":
		return nil
	case "clear":
		unsup("clear builtin")
	case "ssa:wrapnilchk":
		return []string{ex.val(c.Args[0])}
	}
	unsup("builtin %s", b.Name())
	return nil
}

// mapLenFacts: len(m)==0 <=> no keys (instantiated lazily as quantified fact)
func (ex *Exec) mapLenFacts(st *State, m string, mt *types.Map, lenTerm string) {
	g := ex.g
	hasA, _, _ := ex.mapTerms(st, m, mt)
	ks := g.sortOf(mt.Key())
	g.assume(ex.pcCur, fmt.Sprintf("(=> (= %s 0) (forall ((k %s)) (! (not (and (not (= %s 0)) (select %s k))) :pattern ((select %s k)))))", lenTerm, ks, m, hasA, hasA))
	g.assume(ex.pcCur, fmt.Sprintf("(forall ((k %s)) (! (=> (and (not (= %s 0)) (select %s k)) (> %s 0)) :pattern ((select %s k))))", ks, m, hasA, lenTerm, hasA))
}

func (ex *Exec) appendOp(st *State, c *ssa.CallCommon) string {
	g := ex.g
	if ex.pureMode {
		unsup("append in pure function")
	}
	sT := c.Args[0].Type().Underlying().(*types.Slice)
	s := ex.val(c.Args[0])
	e := ex.val(c.Args[1])
	comp := g.arrComp(sT.Elem())
	old := g.get(st, comp)
	es := g.sortOf(sT.Elem())
	_, isStr := c.Args[1].Type().Underlying().(*types.Basic)
	var n string
	if isStr {
		g.needByteAt()
		n = fmt.Sprintf("(st.len %s)", e)
	} else {
		n = fmt.Sprintf("(s.len %s)", e)
	}
	nl := ex.bind("app.len", "Int", fmt.Sprintf("(+ (s.len %s) %s)", s, n))
	inplace := ex.bind("app.inplace", "Bool", fmt.Sprintf("(and (<= %s (s.cap %s)) (not (= (s.arr %s) 0)))", nl, s, s))
	na := g.freshConst("app.arr", fmt.Sprintf("(Array Int %s)", es))
	nr := ex.newRef(st, "arr")
	ncap := g.freshConst("app.cap", "Int")
	g.addFact(fmt.Sprintf("(>= %s %s)", ncap, nl))
	oldArr := fmt.Sprintf("(select %s (s.arr %s))", old, s)
	// SRC(j): j-th appended element; OLD(p): element at absolute position p of the old backing array.
	// Reads of the old arrays inside the quantified facts go through these two functions so that the
	// facts do not generate new array-read terms (which would re-trigger each other when source and
	// destination share a backing array, as in append(s[:i], s[i+1:]...)).
	g.nfresh++
	SRC := fmt.Sprintf("|app.src!%d|", g.nfresh)
	OLD := fmt.Sprintf("|app.old!%d|", g.nfresh)
	g.decls = append(g.decls, fmt.Sprintf("(declare-fun %s (Int) %s)", SRC, es), fmt.Sprintf("(declare-fun %s (Int) %s)", OLD, es))
	dst := fmt.Sprintf("(+ (s.off %s) (s.len %s))", s, s)
	g.addFact(fmt.Sprintf("(=> %s (forall ((i Int)) (! (= (select %s i) (ite (and (>= i %s) (< i (+ (s.off %s) %s))) (%s (- i %s)) (%s i))) :pattern ((select %s i)))))",
		inplace, na, dst, s, nl, SRC, dst, OLD, na))
	g.addFact(fmt.Sprintf("(=> (not %s) (forall ((i Int)) (! (and (=> (and (>= i 0) (< i (s.len %s))) (= (select %s i) (%s (+ (s.off %s) i)))) (=> (and (>= i (s.len %s)) (< i %s)) (= (select %s i) (%s (- i (s.len %s)))))) :pattern ((select %s i)))))",
		inplace, s, na, OLD, s, s, nl, na, SRC, s, na))
	dstBase := fmt.Sprintf("(ite %s %s (s.len %s))", inplace, dst, s)
	if isStr {
		at := "(st.at %s j)"
		if g.mode == "bv" {
			at = "((_ int2bv 8) (st.at %s j))"
		}
		g.addFact(fmt.Sprintf("(forall ((j Int)) (! (= (%s j) %s) :pattern ((%s j))))", SRC, fmt.Sprintf(at, e), SRC))
	} else {
		srcArr := fmt.Sprintf("(select %s (s.arr %s))", old, e)
		g.addFact(fmt.Sprintf("(forall ((q Int)) (! (=> (and (>= q (s.off %s)) (< q (+ (s.off %s) %s))) (and (= (%s (- q (s.off %s))) (select %s q)) (= (select %s (+ (- q (s.off %s)) %s)) (select %s q)))) :pattern ((select %s q))))",
			e, e, n, SRC, e, srcArr, na, e, dstBase, srcArr, srcArr))
	}
	g.addFact(fmt.Sprintf("(forall ((p Int)) (! (and (= (%s p) (select %s p)) (=> (and %s (not (and (>= p %s) (< p (+ (s.off %s) %s))))) (= (select %s p) (select %s p))) (=> (and (not %s) (>= p (s.off %s)) (< p %s)) (= (select %s (- p (s.off %s))) (select %s p)))) :pattern ((select %s p))))",
		OLD, oldArr, inplace, dst, s, nl, na, oldArr, inplace, s, dst, na, s, oldArr, oldArr))
	if ex.c != nil && ex.c.AppendOldReads {
		// opt-in (`append-old-reads`): a read of the NEW array at a kept position yields a read of the OLD array, so that
		// quantified facts about the old contents (loop invariants over all elements) carry over. Off by default: when
		// source and destination share a backing array this can feed a matching loop.
		g.addFact(fmt.Sprintf("(forall ((p Int)) (! (= (%s p) (select %s p)) :pattern ((%s p))))", OLD, oldArr, OLD))
	}
	res := ex.bind("app.res", "Slice", fmt.Sprintf("(ite %s (mk-slice (s.arr %s) (s.off %s) %s (s.cap %s)) (mk-slice %s 0 %s %s))", inplace, s, s, nl, s, nr, nl, ncap))
	g.set(st, comp, fmt.Sprintf("(store %s (s.arr %s) %s)", old, res, na))
	return res
}

func (ex *Exec) copyOp(st *State, c *ssa.CallCommon) string {
	g := ex.g
	if ex.pureMode {
		unsup("copy in pure function")
	}
	dT := c.Args[0].Type().Underlying().(*types.Slice)
	d := ex.val(c.Args[0])
	s := ex.val(c.Args[1])
	comp := g.arrComp(dT.Elem())
	old := g.get(st, comp)
	es := g.sortOf(dT.Elem())
	_, isStr := c.Args[1].Type().Underlying().(*types.Basic)
	var sl string
	if isStr {
		g.needByteAt()
		sl = fmt.Sprintf("(st.len %s)", s)
	} else {
		sl = fmt.Sprintf("(s.len %s)", s)
	}
	n := ex.bind("copy.n", "Int", fmt.Sprintf("(ite (< (s.len %s) %s) (s.len %s) %s)", d, sl, d, sl))
	na := g.freshConst("copy.arr", fmt.Sprintf("(Array Int %s)", es))
	oldArr := fmt.Sprintf("(select %s (s.arr %s))", old, d)
	g.nfresh++
	SRC := fmt.Sprintf("|copy.src!%d|", g.nfresh)
	OLD := fmt.Sprintf("|copy.old!%d|", g.nfresh)
	g.decls = append(g.decls, fmt.Sprintf("(declare-fun %s (Int) %s)", SRC, es), fmt.Sprintf("(declare-fun %s (Int) %s)", OLD, es))
	g.addFact(fmt.Sprintf("(forall ((i Int)) (! (= (select %s i) (ite (and (>= i (s.off %s)) (< i (+ (s.off %s) %s))) (%s (- i (s.off %s))) (%s i))) :pattern ((select %s i))))",
		na, d, d, n, SRC, d, OLD, na))
	if isStr {
		at := "(st.at %s j)"
		if g.mode == "bv" {
			at = "((_ int2bv 8) (st.at %s j))"
		}
		g.addFact(fmt.Sprintf("(forall ((j Int)) (! (= (%s j) %s) :pattern ((%s j))))", SRC, fmt.Sprintf(at, s), SRC))
	} else {
		srcArr := fmt.Sprintf("(select %s (s.arr %s))", old, s)
		g.addFact(fmt.Sprintf("(forall ((q Int)) (! (=> (and (>= q (s.off %s)) (< q (+ (s.off %s) %s))) (and (= (%s (- q (s.off %s))) (select %s q)) (= (select %s (+ (- q (s.off %s)) (s.off %s))) (select %s q)))) :pattern ((select %s q))))",
			s, s, n, SRC, s, srcArr, na, s, d, srcArr, srcArr))
	}
	g.addFact(fmt.Sprintf("(forall ((p Int)) (! (and (= (%s p) (select %s p)) (=> (not (and (>= p (s.off %s)) (< p (+ (s.off %s) %s)))) (= (select %s p) (select %s p)))) :pattern ((select %s p))))",
		OLD, oldArr, d, d, n, na, oldArr, oldArr))
	g.set(st, comp, fmt.Sprintf("(ite (= %s 0) %s (store %s (s.arr %s) %s))", n, old, old, d, na))
	return ex.fromMathInt(n)
}

// sortSlice: built-in (trusted) semantics of sort.Slice(x, less) when x is a slice boxed at the call
// site and less is a closure literal that is a pure function of the heap:
//   obligations: less is a strict weak order on the indices of x (irreflexive, transitive, negatively transitive);
//   effect: the elements of x are permuted (bijection pi), positions outside x are unchanged, and the
//   result is sorted: for i<j not less(j,i).
func (ex *Exec) sortSlice(st *State, c *ssa.CallCommon, rec *callRec) bool {
	g := ex.g
	mi, ok := c.Args[0].(*ssa.MakeInterface)
	if !ok {
		return false
	}
	sl, ok := mi.X.Type().Underlying().(*types.Slice)
	if !ok {
		return false
	}
	mc, ok := ex.closures[c.Args[1]]
	if !ok {
		return false
	}
	cfn := mc.Fn.(*ssa.Function)
	var binds []string
	for _, b := range mc.Bindings {
		binds = append(binds, ex.val(b))
	}
	s := ex.val(mi.X)
	less := func(state *State, i, j string) (r string) {
		return ex.applyPureClosure(state, cfn, binds, []string{i, j})
	}
	inr := func(v string) string { return fmt.Sprintf("(and (<= 0 %s) (< %s (s.len %s)))", v, v, s) }
	pre := st.clone()
	lbl := fmt.Sprintf("pre@sort.Slice#%d", rec.ord)
	ex.addObl(lbl, "less-irreflexive", fmt.Sprintf("(forall ((i Int)) (=> %s (not %s)))", inr("i"), less(pre, "i", "i")), ex.pcCur, "sort.Slice: less must be a strict weak order", "")
	ex.addObl(lbl, "less-transitive", fmt.Sprintf("(forall ((i Int) (j Int) (k Int)) (=> (and %s %s %s %s %s) %s))", inr("i"), inr("j"), inr("k"), less(pre, "i", "j"), less(pre, "j", "k"), less(pre, "i", "k")), ex.pcCur, "sort.Slice: less must be a strict weak order", "")
	ex.addObl(lbl, "less-negtransitive", fmt.Sprintf("(forall ((i Int) (j Int) (k Int)) (=> (and %s %s %s (not %s) (not %s)) (not %s)))", inr("i"), inr("j"), inr("k"), less(pre, "i", "j"), less(pre, "j", "k"), less(pre, "i", "k")), ex.pcCur, "sort.Slice: less must be a strict weak order", "")
	comp := g.arrComp(sl.Elem())
	old := g.get(st, comp)
	es := g.sortOf(sl.Elem())
	na := g.freshConst("sort.arr", fmt.Sprintf("(Array Int %s)", es))
	g.nfresh++
	pi := fmt.Sprintf("|sort.pi!%d|", g.nfresh)
	pinv := fmt.Sprintf("|sort.pinv!%d|", g.nfresh)
	g.decls = append(g.decls, fmt.Sprintf("(declare-fun %s (Int) Int)", pi), fmt.Sprintf("(declare-fun %s (Int) Int)", pinv))
	oldArr := fmt.Sprintf("(select %s (s.arr %s))", old, s)
	pc := ex.pcCur
	g.assume(pc, fmt.Sprintf("(forall ((p Int)) (! (=> (or (< p (s.off %s)) (>= p (+ (s.off %s) (s.len %s)))) (= (select %s p) (select %s p))) :pattern ((select %s p))))", s, s, s, na, oldArr, na))
	g.assume(pc, fmt.Sprintf("(forall ((i Int)) (! (=> %s (and %s (= (select %s (sl.ix %s i)) (select %s (sl.ix %s (%s i)))) (= (%s (%s i)) i))) :pattern ((select %s (sl.ix %s i))) :pattern ((%s i))))",
		inr("i"), inr("("+pi+" i)"), na, s, oldArr, s, pi, pinv, pi, na, s, pi))
	g.assume(pc, fmt.Sprintf("(forall ((i Int)) (! (=> %s (and %s (= (select %s (sl.ix %s i)) (select %s (sl.ix %s (%s i)))) (= (%s (%s i)) i))) :pattern ((select %s (sl.ix %s i))) :pattern ((%s i))))",
		inr("i"), inr("("+pinv+" i)"), oldArr, s, na, s, pinv, pi, pinv, oldArr, s, pinv))
	g.set(st, comp, fmt.Sprintf("(ite (= (s.len %s) 0) %s (store %s (s.arr %s) %s))", s, old, old, s, na))
	g.assume(pc, fmt.Sprintf("(forall ((i Int) (j Int)) (! (=> (and (<= 0 i) (< i j) (< j (s.len %s))) (not %s)) :pattern ((select %s (sl.ix %s i)) (select %s (sl.ix %s j)))))", s, less(st, "j", "i"), na, s, na, s))
	g.note("trusted built-in semantics of sort.Slice: permutation of the slice elements, sorted w.r.t. less, given that less is a strict weak order (proved as pre@sort.Slice obligations)")
	return true
}

// onceDoReadOnly: the function passed to (*sync.Once).Do is a closure literal that writes no pre-existing memory.
func (ex *Exec) onceDoReadOnly(c *ssa.CallCommon) bool {
	if len(c.Args) < 2 {
		return false
	}
	mc, ok := ex.closures[c.Args[1]]
	if !ok {
		if m, isMC := c.Args[1].(*ssa.MakeClosure); isMC {
			mc = m
		} else if f, isFn := c.Args[1].(*ssa.Function); isFn {
			return ex.P.readOnly(f)
		} else {
			return false
		}
	}
	f, ok := mc.Fn.(*ssa.Function)
	return ok && ex.P.readOnly(f)
}


// havockedAllAt: the call already havocked the whole heap (epoch changed), nothing to add.
func (ex *Exec) havockedAllAt(rec *callRec, st *State) bool {
	return rec.pre != nil && rec.pre.epoch != st.epoch
}

// funcArgEffects: effects of function values passed as arguments (the callee may invoke them any number of
// times). Closure with a contract: havoc its modifies footprint and its captured cells; function proved
// read-only: nothing; anything else: havoc the whole heap. (sort.Slice and sync.Once.Do are handled before.)
func (ex *Exec) funcArgEffects(st *State, key string, c *ssa.CallCommon, argVals []ssa.Value) {
	g := ex.g
	if key == "sort.Slice" || (key == "sync.Once.Do" && ex.onceDoReadOnly(c)) {
		return
	}
	for _, a := range argVals {
		if _, isSig := a.Type().Underlying().(*types.Signature); !isSig {
			continue
		}
		var fn *ssa.Function
		var mc *ssa.MakeClosure
		switch v := a.(type) {
		case *ssa.Function:
			fn = v
		case *ssa.MakeClosure:
			mc = v
			fn, _ = v.Fn.(*ssa.Function)
		default:
			if m, ok := ex.closures[a]; ok {
				mc = m
				fn, _ = m.Fn.(*ssa.Function)
			} else if ct, isCT := a.(*ssa.ChangeType); isCT {
				if m, ok := ex.closures[ct.X]; ok {
					mc = m
					fn, _ = m.Fn.(*ssa.Function)
				} else if f, ok := ct.X.(*ssa.Function); ok {
					fn = f
				}
			}
			if c, isConst := a.(*ssa.Const); isConst && c.IsNil() {
				continue
			}
		}
		if fn == nil {
			g.note("function value of unknown origin passed to " + shortKey(key) + ": heap havocked")
			ex.havocEverything(st)
			return
		}
		con := ex.P.Contracts[funcKey(fn)]
		if con != nil && con.Pure {
			continue
		}
		if con == nil || con.ModAll {
			if con == nil && ex.P.readOnly(fn) {
				continue
			}
			g.note("closure/function " + shortKey(funcKey(fn)) + " passed to " + shortKey(key) + " has no limited modifies clause: heap havocked")
			ex.havocEverything(st)
			return
		}
		// contract with a limited modifies clause: havoc that footprint (evaluated with the captured cells bound)
		env := &Env{g: g, ex: ex, vars: map[string]Val{}, st: st, old: st, pkgPath: con.Pkg, atCallSite: true}
		if env.pkgPath == "" {
			env.pkgPath = g.pkgPath
		}
		if mc != nil {
			for i, fv := range fn.FreeVars {
				elem := fv.Type().(*types.Pointer).Elem()
				env.vars[fv.Name()] = Val{"cell:" + ex.val(mc.Bindings[i]), GType{T: elem}}
			}
		}
		// parameters of the closure are unknown at this point: entries mentioning them cannot be evaluated
		ok := true
		func() {
			defer func() {
				if r := recover(); r != nil {
					if _, isSpec := r.(specErr); isSpec {
						ok = false
						return
					}
					if _, isUns := r.(unsupported); isUns {
						ok = false
						return
					}
					panic(r)
				}
			}()
			for _, m := range con.Mod {
				for _, lv := range env.lvalues(m) {
					if lv.base == "" {
						g.havocComp(st, lv.comp)
						continue
					}
					sortS := g.comps[lv.comp]
					es := strings.TrimSuffix(strings.TrimPrefix(sortS, "(Array Int "), ")")
					fv := g.freshConst("hv", es)
					g.set(st, lv.comp, fmt.Sprintf("(store %s %s %s)", g.get(st, lv.comp), lv.base, fv))
				}
			}
		}()
		if !ok {
			g.note("modifies clause of closure " + shortKey(funcKey(fn)) + " mentions its parameters: heap havocked at the call of " + shortKey(key))
			ex.havocEverything(st)
			return
		}
		g.note("closure " + shortKey(funcKey(fn)) + " passed to " + shortKey(key) + ": its modifies footprint is havocked at the call")
	}
}
