package main

// Parser for contract files: comment-only Go files whose lines start with "//@".

import (
	"fmt"
	"os"
	"path/filepath"
	"regexp"
	"sort"
	"strconv"
	"strings"
)

type Clause struct {
	Label string
	Src   string
	E     Expr
	File  string
	Line  int
	// witness hints (extra terms asserted to exist, helps E-matching)
	Hints []Expr
}

type LoopSpec struct {
	Invs      []*Clause
	Decreases *Clause
	Modifies  []Expr // optional extra havoc
}

type CallAssert struct {
	Callee string // callee short name (e.g. "Delete" or "sort.Slice")
	Ord    int    // 1-based ordinal among calls of that callee in the function; 0 = all
	When   string // "before" | "after"
	Clause *Clause
}

type Contract struct {
	Kind    string // func | extern | lemma | pred | ghost | axiom
	Pkg     string // package path the file belongs to
	Key     string // canonical function key
	Name    string // lemma/pred name, ghost field name
	Props   []string
	Mode    string
	Pure    bool
	Trusted bool // contract assumed, body not checked
	Inert   bool // no heap effect
	Safety  bool
	Frame   bool // frame on: syntactic frame check is an obligation
	Also          map[string][]string // property id -> labels of this block's obligations that additionally belong to that property
	AppendOldReads bool               // opt-in: append facts also link OLD(p) back to reads of the old backing array
	ThoroughOnly  []string            // labels of obligations discharged only in the thorough tier (slow proofs); assumed in the quick tier and listed in the evidence
	StopsLoop     []string            // like Propag, plus: after a failed call the enclosing loop does not go round again
	CheckCalls    bool                // on a trusted contract: the body is still checked against the before/after/propagates clauses
	Resets        []string            // ghost set variables emptied at entry (ghost assignment: at body entry and at call sites before the precondition)
	OnlyContracts []string // if set: only these callees' contracts are used, all others are treated as uncontracted
	Opaque  bool
	Params  []Binder
	Result  *TypeExpr // pred/fn result type (nil = bool)
	Recv    string    // ghost field: struct type name
	GType   *TypeExpr // ghost field type
	Req     []*Clause
	Ens     []*Clause
	ModAll  bool
	Mod     []Expr
	Loops   map[int]*LoopSpec
	Asserts []*CallAssert
	Propag  []string // "callee#n"
	BestEff []string
	Body    *Clause // pred body / axiom
	Induct  string  // lemma: "by induction on n"
	Uses    []string // lemma: pure functions/lemmas whose definitions are needed (auto-detected too)
	File    string
	Line    int
	Unroll  int // pure recursive unroll depth
}

var clauseRe = regexp.MustCompile(`^([a-z][a-z-]*)(?:\[([^\]]+)\])?\s*(.*)$`)

type rawLine struct {
	text   string
	indent int
	file   string
	line   int
}

func parseContractFile(path, pkgPath string) ([]*Contract, error) {
	data, err := os.ReadFile(path)
	if err != nil {
		return nil, err
	}
	var lines []rawLine
	for i, l := range strings.Split(string(data), "\n") {
		t := strings.TrimSpace(l)
		if !strings.HasPrefix(t, "//@") {
			continue
		}
		body := strings.TrimPrefix(t, "//@")
		// strip trailing comment introduced by " //"
		if k := strings.Index(body, " // "); k >= 0 {
			body = body[:k]
		}
		if strings.TrimSpace(body) == "" {
			continue
		}
		ind := len(body) - len(strings.TrimLeft(body, " \t"))
		lines = append(lines, rawLine{strings.TrimSpace(body), ind, path, i + 1})
	}
	// group: block header = indent <= 1; clause = indent 2..4 ; continuation = deeper than its clause
	var out []*Contract
	var defaultProps []string
	var cur *Contract
	type pending struct {
		kw, label, text string
		line, indent    int
	}
	var pc *pending
	flush := func() error {
		if pc == nil || cur == nil {
			pc = nil
			return nil
		}
		err := applyClause(cur, pc.kw, pc.label, pc.text, path, pc.line)
		pc = nil
		return err
	}
	for _, rl := range lines {
		if rl.indent <= 1 {
			if err := flush(); err != nil {
				return nil, err
			}
			fields := strings.Fields(rl.text)
			switch fields[0] {
			case "props":
				defaultProps = fields[1:]
				cur = nil
				continue
			case "func", "extern", "lemma", "pred", "ghost", "axiom", "fn":
				c := &Contract{Pkg: pkgPath, File: path, Line: rl.line, Loops: map[int]*LoopSpec{}, Props: defaultProps}
				if err := parseHeader(c, rl.text); err != nil {
					return nil, fmt.Errorf("%s:%d: %v", path, rl.line, err)
				}
				out = append(out, c)
				cur = c
			default:
				return nil, fmt.Errorf("%s:%d: unknown block keyword %q", path, rl.line, fields[0])
			}
			continue
		}
		if cur == nil {
			return nil, fmt.Errorf("%s:%d: clause outside block", path, rl.line)
		}
		if pc != nil && rl.indent > pc.indent {
			pc.text += " " + rl.text
			continue
		}
		if err := flush(); err != nil {
			return nil, err
		}
		m := clauseRe.FindStringSubmatch(rl.text)
		if m == nil {
			return nil, fmt.Errorf("%s:%d: cannot parse clause %q", path, rl.line, rl.text)
		}
		pc = &pending{m[1], m[2], m[3], rl.line, rl.indent}
	}
	if err := flush(); err != nil {
		return nil, err
	}
	return out, nil
}

func parseHeader(c *Contract, text string) error {
	fields := strings.Fields(text)
	c.Kind = fields[0]
	rest := strings.TrimSpace(strings.TrimPrefix(text, fields[0]))
	switch c.Kind {
	case "func":
		// func Recv.Name | func Name | func Recv.Name$1
		name := strings.Fields(rest)[0]
		c.Key = c.Pkg + "." + name
		c.Name = name
		if strings.Contains(name, "#") {
			c.Trusted = true // abstract contract of a callback parameter: nothing to verify
		}
	case "extern":
		// extern func <pkgpath>.<Name> | <pkgpath>.<Type>.<Name>
		rest = strings.TrimSpace(strings.TrimPrefix(rest, "func"))
		c.Key = strings.Fields(rest)[0]
		c.Name = c.Key
		c.Trusted = true
		c.Kind = "func"
	case "lemma", "pred", "fn":
		// name(params) [T]
		i := strings.Index(rest, "(")
		j := strings.LastIndex(rest, ")")
		if i < 0 || j < i {
			return fmt.Errorf("bad %s header %q", c.Kind, text)
		}
		c.Name = strings.TrimSpace(rest[:i])
		ps := strings.TrimSpace(rest[i+1 : j])
		if ps != "" {
			bs, err := parseBinders(ps)
			if err != nil {
				return err
			}
			c.Params = bs
		}
		tail := strings.TrimSpace(rest[j+1:])
		if tail != "" {
			te, err := parseTypeString(tail)
			if err != nil {
				return err
			}
			c.Result = &te
		}
		c.Key = c.Pkg + "." + c.Kind + "." + c.Name
	case "ghost":
		// ghost field Type.name gtype
		f := strings.Fields(rest)
		if len(f) >= 3 && f[0] == "var" {
			c.Kind = "ghostvar"
			c.Name = f[1]
			te, err := parseTypeString(strings.Join(f[2:], " "))
			if err != nil {
				return err
			}
			c.GType = &te
			c.Key = "ghostvar." + c.Name
			return nil
		}
		if len(f) < 3 || f[0] != "field" {
			return fmt.Errorf("bad ghost header %q", text)
		}
		k := strings.LastIndex(f[1], ".")
		c.Recv, c.Name = f[1][:k], f[1][k+1:]
		te, err := parseTypeString(strings.Join(f[2:], " "))
		if err != nil {
			return err
		}
		c.GType = &te
		c.Key = c.Pkg + ".ghost." + c.Recv + "." + c.Name
	case "axiom":
		c.Name = strings.Fields(rest)[0]
		c.Key = c.Pkg + ".axiom." + c.Name
	}
	return nil
}

func parseBinders(s string) ([]Binder, error) {
	toks, err := lex(s)
	if err != nil {
		return nil, err
	}
	p := &parser{toks: toks, src: s}
	var out []Binder
	var perr error
	func() {
		defer func() {
			if r := recover(); r != nil {
				perr = fmt.Errorf("%v in binders %q", r, s)
			}
		}()
		for {
			var names []string
			names = append(names, p.identName())
			for p.accept(",") {
				names = append(names, p.identName())
			}
			ty := p.typeExpr()
			for _, n := range names {
				out = append(out, Binder{n, ty})
			}
			if !p.accept(",") {
				break
			}
		}
		if p.peek().kind != tkEOF {
			p.fail("trailing input")
		}
	}()
	return out, perr
}

func parseTypeString(s string) (te TypeExpr, err error) {
	toks, err := lex(s)
	if err != nil {
		return te, err
	}
	p := &parser{toks: toks, src: s}
	defer func() {
		if r := recover(); r != nil {
			err = fmt.Errorf("%v in type %q", r, s)
		}
	}()
	te = p.typeExpr()
	return te, nil
}

func mkClause(label, text, file string, line int) (*Clause, error) {
	// optional trailing "witness e1; e2"
	var hints []Expr
	if k := strings.Index(text, " witness "); k >= 0 {
		for _, h := range strings.Split(text[k+len(" witness "):], ";") {
			he, err := parseExpr(strings.TrimSpace(h))
			if err != nil {
				return nil, fmt.Errorf("%s:%d: %v", file, line, err)
			}
			hints = append(hints, he)
		}
		text = text[:k]
	}
	e, err := parseExpr(text)
	if err != nil {
		return nil, fmt.Errorf("%s:%d: %v", file, line, err)
	}
	return &Clause{Label: label, Src: text, E: e, File: file, Line: line, Hints: hints}, nil
}

var callRefRe = regexp.MustCompile(`^(\S+?)(?:#(\d+))?$`)

func applyClause(c *Contract, kw, label, text, file string, line int) error {
	switch kw {
	case "props":
		c.Props = strings.Fields(text)
	case "mode":
		c.Mode = strings.TrimSpace(text)
	case "pure":
		c.Pure = true
		if strings.HasPrefix(strings.TrimSpace(text), "unroll") {
			n, _ := strconv.Atoi(strings.TrimSpace(strings.TrimPrefix(strings.TrimSpace(text), "unroll")))
			c.Unroll = n
		}
	case "trusted":
		c.Trusted = true
	case "inert":
		c.Inert = true
	case "opaque":
		c.Opaque = true
	case "safety":
		c.Safety = strings.TrimSpace(text) != "off"
	case "only-contracts":
		c.OnlyContracts = append(c.OnlyContracts, strings.Fields(strings.ReplaceAll(text, ",", " "))...)
	case "frame":
		c.Frame = strings.TrimSpace(text) != "off"
	case "append-old-reads":
		c.AppendOldReads = strings.TrimSpace(text) != "off"
	case "thorough-only":
		c.ThoroughOnly = append(c.ThoroughOnly, strings.Fields(strings.ReplaceAll(text, ",", " "))...)
	case "stops-loop":
		c.StopsLoop = append(c.StopsLoop, strings.Fields(text)...)
	case "check-calls":
		c.CheckCalls = true
	case "resets":
		for _, n := range strings.Fields(strings.ReplaceAll(text, ",", " ")) {
			c.Resets = append(c.Resets, n)
			e, err := parseExpr(n) // a reset is a write: implies `modifies n`
			if err != nil {
				return fmt.Errorf("%s:%d: %v", file, line, err)
			}
			c.Mod = append(c.Mod, e)
		}
	case "also":
		// also C02: label1, label2   -- the obligations with these labels are also part of property C02's check
		parts := strings.SplitN(text, ":", 2)
		if len(parts) != 2 {
			return fmt.Errorf("%s:%d: also <prop>: label, label", file, line)
		}
		if c.Also == nil {
			c.Also = map[string][]string{}
		}
		p := strings.TrimSpace(parts[0])
		c.Also[p] = append(c.Also[p], strings.Fields(strings.ReplaceAll(parts[1], ",", " "))...)
	case "requires", "ensures":
		cl, err := mkClause(label, text, file, line)
		if err != nil {
			return err
		}
		if cl.Label == "" {
			if kw == "requires" {
				cl.Label = fmt.Sprintf("r%d", len(c.Req)+1)
			} else {
				cl.Label = fmt.Sprintf("e%d", len(c.Ens)+1)
			}
		}
		if kw == "requires" {
			c.Req = append(c.Req, cl)
		} else {
			c.Ens = append(c.Ens, cl)
		}
	case "modifies":
		if strings.TrimSpace(text) == "*" {
			c.ModAll = true
			return nil
		}
		for _, part := range splitTop(text, ',') {
			e, err := parseExpr(strings.TrimSpace(part))
			if err != nil {
				return fmt.Errorf("%s:%d: %v", file, line, err)
			}
			c.Mod = append(c.Mod, e)
		}
	case "loop":
		// loop N invariant[label] expr | loop N decreases expr | loop N modifies ...
		f := strings.Fields(text)
		if len(f) < 2 {
			return fmt.Errorf("%s:%d: bad loop clause", file, line)
		}
		n, err := strconv.Atoi(f[0])
		if f[0] == "*" {
			n, err = 0, nil // applies to every loop of the function
		}
		if err != nil {
			return fmt.Errorf("%s:%d: bad loop ordinal", file, line)
		}
		rest := strings.TrimSpace(strings.TrimPrefix(strings.TrimSpace(text), f[0]))
		m := clauseRe.FindStringSubmatch(rest)
		if m == nil {
			return fmt.Errorf("%s:%d: bad loop clause", file, line)
		}
		ls := c.Loops[n]
		if ls == nil {
			ls = &LoopSpec{}
			c.Loops[n] = ls
		}
		switch m[1] {
		case "invariant":
			cl, err := mkClause(m[2], m[3], file, line)
			if err != nil {
				return err
			}
			if cl.Label == "" {
				cl.Label = fmt.Sprintf("i%d", len(ls.Invs)+1)
			}
			ls.Invs = append(ls.Invs, cl)
		case "decreases":
			cl, err := mkClause(m[2], m[3], file, line)
			if err != nil {
				return err
			}
			ls.Decreases = cl
		case "modifies":
			for _, part := range splitTop(m[3], ',') {
				e, err := parseExpr(strings.TrimSpace(part))
				if err != nil {
					return fmt.Errorf("%s:%d: %v", file, line, err)
				}
				ls.Modifies = append(ls.Modifies, e)
			}
		default:
			return fmt.Errorf("%s:%d: unknown loop clause %q", file, line, m[1])
		}
	case "before", "after":
		// before call Callee#n [label] expr   (label passed via kw[label])
		f := strings.Fields(text)
		if len(f) < 3 || f[0] != "call" {
			return fmt.Errorf("%s:%d: expected `%s[label] call <callee>#n <expr>`", file, line, kw)
		}
		m := callRefRe.FindStringSubmatch(f[1])
		ord := 0
		if m[2] != "" {
			ord, _ = strconv.Atoi(m[2])
		}
		etext := strings.TrimSpace(strings.SplitN(text, f[1], 2)[1])
		cl, err := mkClause(label, etext, file, line)
		if err != nil {
			return err
		}
		if cl.Label == "" {
			cl.Label = fmt.Sprintf("%s-%s#%d", kw, m[1], ord)
		}
		c.Asserts = append(c.Asserts, &CallAssert{Callee: m[1], Ord: ord, When: kw, Clause: cl})
	case "propagates":
		c.Propag = append(c.Propag, strings.Fields(text)...)
	case "best-effort":
		c.BestEff = append(c.BestEff, strings.Fields(text)...)
	case "body", "is":
		cl, err := mkClause(label, text, file, line)
		if err != nil {
			return err
		}
		c.Body = cl
	case "by":
		c.Induct = strings.TrimSpace(text)
	case "uses":
		c.Uses = append(c.Uses, strings.Fields(text)...)
	default:
		return fmt.Errorf("%s:%d: unknown clause keyword %q", file, line, kw)
	}
	return nil
}

// splitTop splits on sep at bracket depth 0.
func splitTop(s string, sep byte) []string {
	var out []string
	depth := 0
	start := 0
	for i := 0; i < len(s); i++ {
		switch s[i] {
		case '(', '[', '{':
			depth++
		case ')', ']', '}':
			depth--
		default:
			if s[i] == sep && depth == 0 {
				out = append(out, s[start:i])
				start = i + 1
			}
		}
	}
	out = append(out, s[start:])
	return out
}

// contract files: /repo/<pkg>/zz_verif_*.go plus /verif/trusted/*.spec (externs; package given by "package" line)
func findContractFiles(repo string, pkgDirs []string) map[string][]string {
	out := map[string][]string{}
	for _, d := range pkgDirs {
		m, _ := filepath.Glob(filepath.Join(repo, d, "zz_verif_*.go"))
		sort.Strings(m)
		out[d] = m
	}
	return out
}
