package main

// Contract expression language: lexer, AST and parser.
// Go-like expressions plus ==>, <==>, forall/exists, old(), `in`, set builtins.

import (
	"fmt"
	"strings"
)

type tokKind int

const (
	tkEOF tokKind = iota
	tkIdent
	tkInt
	tkString
	tkOp
)

type lexTok struct {
	kind tokKind
	s    string
	pos  int
}

func lex(src string) ([]lexTok, error) {
	var toks []lexTok
	i := 0
	for i < len(src) {
		c := src[i]
		switch {
		case c == ' ' || c == '\t' || c == '\n' || c == '\r':
			i++
		case isIdentStart(c):
			j := i + 1
			for j < len(src) && isIdentPart(src[j]) {
				j++
			}
			toks = append(toks, lexTok{tkIdent, src[i:j], i})
			i = j
		case c >= '0' && c <= '9':
			j := i + 1
			for j < len(src) && (isIdentPart(src[j])) {
				j++
			}
			toks = append(toks, lexTok{tkInt, src[i:j], i})
			i = j
		case c == '"':
			j := i + 1
			for j < len(src) && src[j] != '"' {
				if src[j] == '\\' {
					j++
				}
				j++
			}
			if j >= len(src) {
				return nil, fmt.Errorf("unterminated string at %d", i)
			}
			toks = append(toks, lexTok{tkString, src[i : j+1], i})
			i = j + 1
		case c == '\'':
			j := i + 1
			for j < len(src) && src[j] != '\'' {
				if src[j] == '\\' {
					j++
				}
				j++
			}
			if j >= len(src) {
				return nil, fmt.Errorf("unterminated char at %d", i)
			}
			toks = append(toks, lexTok{tkInt, src[i : j+1], i})
			i = j + 1
		default:
			ops := []string{"<==>", "==>", "::", "==", "!=", "<=", ">=", "&&", "||", "<<", ">>", "&^"}
			matched := false
			for _, op := range ops {
				if strings.HasPrefix(src[i:], op) {
					toks = append(toks, lexTok{tkOp, op, i})
					i += len(op)
					matched = true
					break
				}
			}
			if !matched {
				if strings.ContainsRune("+-*/%<>!()[]{}.,:&|^#", rune(c)) {
					toks = append(toks, lexTok{tkOp, string(c), i})
					i++
				} else {
					return nil, fmt.Errorf("bad character %q at %d", c, i)
				}
			}
		}
	}
	toks = append(toks, lexTok{tkEOF, "", len(src)})
	return toks, nil
}

func isIdentStart(c byte) bool {
	return c == '_' || (c >= 'a' && c <= 'z') || (c >= 'A' && c <= 'Z') || c == '$'
}
func isIdentPart(c byte) bool { return isIdentStart(c) || (c >= '0' && c <= '9') }

// ---- AST ----

type Expr interface{ String() string }

type (
	EIdent  struct{ Name string }
	EInt    struct{ Lit string }
	EString struct{ Lit string } // includes quotes
	EBool   struct{ V bool }
	ENil    struct{}
	EUnary  struct {
		Op string
		X  Expr
	}
	EBinary struct {
		Op   string
		X, Y Expr
	}
	ESel struct {
		X    Expr
		Name string
	}
	EIndex struct{ X, I Expr }
	ESlice struct{ X, Lo, Hi Expr }
	ECall  struct {
		Fun  Expr
		Args []Expr
	}
	EOld   struct{ X Expr }
	EQuant struct {
		Forall   bool
		Vars     []Binder
		Triggers [][]Expr
		Body     Expr
	}
	ELit struct { // T{f: e, ...}
		Type   TypeExpr
		Fields []string
		Vals   []Expr
	}
	EDeref struct{ X Expr }
	ETypeLit struct{ TE TypeExpr } // a type written where an expression is expected: []T, map[K]V (arguments of elems/unbox/typeTag/empty)
)

type Binder struct {
	Name string
	Type TypeExpr
}

// TypeExpr: Go type syntax subset.
type TypeExpr struct {
	Kind string // "name", "ptr", "slice", "map", "set", "seq"
	Name string // for "name": possibly pkg.Name
	Elem *TypeExpr
	Key  *TypeExpr
}

func (t TypeExpr) String() string {
	switch t.Kind {
	case "name":
		return t.Name
	case "ptr":
		return "*" + t.Elem.String()
	case "slice":
		return "[]" + t.Elem.String()
	case "map":
		return "map[" + t.Key.String() + "]" + t.Elem.String()
	case "set":
		return "set[" + t.Elem.String() + "]"
	}
	return "?"
}

func (e *EIdent) String() string  { return e.Name }
func (e *EInt) String() string    { return e.Lit }
func (e *EString) String() string { return e.Lit }
func (e *EBool) String() string   { return fmt.Sprint(e.V) }
func (e *ENil) String() string    { return "nil" }
func (e *EUnary) String() string  { return e.Op + e.X.String() }
func (e *EBinary) String() string { return "(" + e.X.String() + " " + e.Op + " " + e.Y.String() + ")" }
func (e *ESel) String() string    { return e.X.String() + "." + e.Name }
func (e *EIndex) String() string  { return e.X.String() + "[" + e.I.String() + "]" }
func (e *EDeref) String() string  { return "*" + e.X.String() }
func (e *ETypeLit) String() string { return e.TE.String() }
func (e *ESlice) String() string {
	lo, hi := "", ""
	if e.Lo != nil {
		lo = e.Lo.String()
	}
	if e.Hi != nil {
		hi = e.Hi.String()
	}
	return e.X.String() + "[" + lo + ":" + hi + "]"
}
func (e *ECall) String() string {
	var a []string
	for _, x := range e.Args {
		a = append(a, x.String())
	}
	return e.Fun.String() + "(" + strings.Join(a, ", ") + ")"
}
func (e *EOld) String() string { return "old(" + e.X.String() + ")" }
func (e *EQuant) String() string {
	q := "exists"
	if e.Forall {
		q = "forall"
	}
	var v []string
	for _, b := range e.Vars {
		v = append(v, b.Name+" "+b.Type.String())
	}
	return "(" + q + " " + strings.Join(v, ", ") + " :: " + e.Body.String() + ")"
}
func (e *ELit) String() string {
	var a []string
	for i := range e.Fields {
		a = append(a, e.Fields[i]+": "+e.Vals[i].String())
	}
	return e.Type.String() + "{" + strings.Join(a, ", ") + "}"
}

// ---- parser ----

type parser struct {
	toks []lexTok
	p    int
	src  string
}

func parseExpr(src string) (e Expr, err error) {
	toks, err := lex(src)
	if err != nil {
		return nil, err
	}
	ps := &parser{toks: toks, src: src}
	defer func() {
		if r := recover(); r != nil {
			if pe, ok := r.(parseErr); ok {
				err = fmt.Errorf("%s in %q", string(pe), src)
				return
			}
			panic(r)
		}
	}()
	e = ps.expr()
	if ps.peek().kind != tkEOF {
		ps.fail("unexpected %q", ps.peek().s)
	}
	return e, nil
}

type parseErr string

func (p *parser) fail(f string, a ...any) {
	panic(parseErr(fmt.Sprintf("parse error at %d: ", p.peek().pos) + fmt.Sprintf(f, a...)))
}
func (p *parser) peek() lexTok { return p.toks[p.p] }
func (p *parser) next() lexTok  { t := p.toks[p.p]; p.p++; return t }
func (p *parser) isOp(s string) bool {
	t := p.peek()
	return t.kind == tkOp && t.s == s
}
func (p *parser) isIdent(s string) bool {
	t := p.peek()
	return t.kind == tkIdent && t.s == s
}
func (p *parser) accept(s string) bool {
	if p.isOp(s) {
		p.p++
		return true
	}
	return false
}
func (p *parser) expect(s string) {
	if !p.accept(s) {
		p.fail("expected %q, got %q", s, p.peek().s)
	}
}

func (p *parser) expr() Expr {
	if p.isIdent("forall") || p.isIdent("exists") {
		return p.quant()
	}
	return p.iff()
}

func (p *parser) quant() Expr {
	q := &EQuant{Forall: p.next().s == "forall"}
	for {
		var names []string
		names = append(names, p.identName())
		for p.accept(",") {
			// either another name of same type, or new binder: decide by lookahead: ident followed by type-start
			names = append(names, p.identName())
		}
		ty := p.typeExpr()
		for _, n := range names {
			q.Vars = append(q.Vars, Binder{n, ty})
		}
		if p.accept(",") {
			continue
		}
		break
	}
	p.expect("::")
	for p.isOp("{") {
		p.next()
		var tr []Expr
		tr = append(tr, p.expr())
		for p.accept(",") {
			tr = append(tr, p.expr())
		}
		p.expect("}")
		q.Triggers = append(q.Triggers, tr)
	}
	q.Body = p.expr()
	return q
}

func (p *parser) identName() string {
	t := p.next()
	if t.kind != tkIdent {
		p.fail("expected identifier, got %q", t.s)
	}
	return t.s
}

func (p *parser) typeExpr() TypeExpr {
	if p.accept("*") {
		e := p.typeExpr()
		return TypeExpr{Kind: "ptr", Elem: &e}
	}
	if p.accept("[") {
		p.expect("]")
		e := p.typeExpr()
		return TypeExpr{Kind: "slice", Elem: &e}
	}
	t := p.next()
	if t.kind != tkIdent {
		p.fail("expected type, got %q", t.s)
	}
	if t.s == "map" || t.s == "set" {
		p.expect("[")
		k := p.typeExpr()
		p.expect("]")
		if t.s == "set" {
			return TypeExpr{Kind: "set", Elem: &k}
		}
		e := p.typeExpr()
		return TypeExpr{Kind: "map", Key: &k, Elem: &e}
	}
	name := t.s
	if p.isOp(".") && p.toks[p.p+1].kind == tkIdent {
		p.next()
		name += "." + p.next().s
	}
	return TypeExpr{Kind: "name", Name: name}
}

func (p *parser) iff() Expr {
	x := p.implies()
	for p.accept("<==>") {
		y := p.implies()
		x = &EBinary{"<==>", x, y}
	}
	return x
}

func (p *parser) implies() Expr {
	x := p.or()
	if p.accept("==>") {
		var y Expr
		if p.isIdent("forall") || p.isIdent("exists") {
			y = p.quant()
		} else {
			y = p.implies()
		}
		return &EBinary{"==>", x, y}
	}
	return x
}

func (p *parser) or() Expr {
	x := p.and()
	for p.accept("||") {
		x = &EBinary{"||", x, p.and()}
	}
	return x
}

func (p *parser) and() Expr {
	x := p.cmp()
	for p.accept("&&") {
		var y Expr
		if p.isIdent("forall") || p.isIdent("exists") {
			y = p.quant()
		} else {
			y = p.cmp()
		}
		x = &EBinary{"&&", x, y}
	}
	return x
}

func (p *parser) cmp() Expr {
	x := p.add()
	for {
		t := p.peek()
		if t.kind == tkOp && (t.s == "==" || t.s == "!=" || t.s == "<" || t.s == "<=" || t.s == ">" || t.s == ">=") {
			p.next()
			x = &EBinary{t.s, x, p.add()}
			continue
		}
		if t.kind == tkIdent && t.s == "in" {
			p.next()
			x = &EBinary{"in", x, p.add()}
			continue
		}
		return x
	}
}

func (p *parser) add() Expr {
	x := p.mul()
	for {
		t := p.peek()
		if t.kind == tkOp && (t.s == "+" || t.s == "-" || t.s == "|" || t.s == "^") {
			p.next()
			x = &EBinary{t.s, x, p.mul()}
			continue
		}
		return x
	}
}

func (p *parser) mul() Expr {
	x := p.unary()
	for {
		t := p.peek()
		if t.kind == tkOp && (t.s == "*" || t.s == "/" || t.s == "%" || t.s == "&" || t.s == "<<" || t.s == ">>" || t.s == "&^") {
			p.next()
			x = &EBinary{t.s, x, p.unary()}
			continue
		}
		return x
	}
}

func (p *parser) unary() Expr {
	if p.accept("!") {
		return &EUnary{"!", p.unary()}
	}
	if p.accept("-") {
		return &EUnary{"-", p.unary()}
	}
	if p.accept("*") {
		return &EDeref{p.unary()}
	}
	return p.postfix()
}

func (p *parser) postfix() Expr {
	x := p.primary()
	for {
		switch {
		case p.isOp("."):
			p.next()
			x = &ESel{x, p.identName()}
		case p.isOp("["):
			p.next()
			var lo, hi Expr
			if p.isOp(":") {
				p.next()
				if !p.isOp("]") {
					hi = p.expr()
				}
				p.expect("]")
				x = &ESlice{x, nil, hi}
				continue
			}
			lo = p.expr()
			if p.accept(":") {
				if !p.isOp("]") {
					hi = p.expr()
				}
				p.expect("]")
				x = &ESlice{x, lo, hi}
				continue
			}
			p.expect("]")
			x = &EIndex{x, lo}
		case p.isOp("("):
			p.next()
			var args []Expr
			if !p.isOp(")") {
				args = append(args, p.expr())
				for p.accept(",") {
					args = append(args, p.expr())
				}
			}
			p.expect(")")
			if id, ok := x.(*EIdent); ok && id.Name == "old" {
				if len(args) != 1 {
					p.fail("old takes one argument")
				}
				x = &EOld{args[0]}
			} else {
				x = &ECall{x, args}
			}
		case p.isOp("{"):
			// composite literal only after a type-like expression (ident or pkg.ident) starting with upper-case or known
			if !looksLikeType(x) {
				return x
			}
			save := p.p
			p.next()
			lit := &ELit{Type: exprToType(x)}
			ok := true
			for !p.isOp("}") {
				if p.peek().kind != tkIdent || !(p.toks[p.p+1].kind == tkOp && p.toks[p.p+1].s == ":") {
					ok = false
					break
				}
				f := p.identName()
				p.expect(":")
				lit.Fields = append(lit.Fields, f)
				lit.Vals = append(lit.Vals, p.expr())
				if !p.accept(",") {
					break
				}
			}
			if !ok || !p.isOp("}") {
				p.p = save
				return x
			}
			p.next()
			x = lit
		default:
			return x
		}
	}
}

func looksLikeType(x Expr) bool {
	switch e := x.(type) {
	case *EIdent:
		return len(e.Name) > 0 && ((e.Name[0] >= 'A' && e.Name[0] <= 'Z') || strings.HasPrefix(e.Name, "T$"))
	case *ESel:
		if id, ok := e.X.(*EIdent); ok {
			_ = id
			return len(e.Name) > 0 && e.Name[0] >= 'A' && e.Name[0] <= 'Z'
		}
	}
	return false
}

func exprToType(x Expr) TypeExpr {
	switch e := x.(type) {
	case *EIdent:
		return TypeExpr{Kind: "name", Name: e.Name}
	case *ESel:
		return TypeExpr{Kind: "name", Name: e.X.String() + "." + e.Name}
	}
	return TypeExpr{Kind: "name", Name: x.String()}
}

func (p *parser) primary() Expr {
	t := p.next()
	switch t.kind {
	case tkIdent:
		if t.s == "map" && p.isOp("[") {
			p.p--
			return &ETypeLit{p.typeExpr()}
		}
		switch t.s {
		case "true":
			return &EBool{true}
		case "false":
			return &EBool{false}
		case "nil":
			return &ENil{}
		case "forall", "exists":
			p.p--
			return p.quant()
		}
		return &EIdent{t.s}
	case tkInt:
		return &EInt{t.s}
	case tkString:
		return &EString{t.s}
	case tkOp:
		if t.s == "(" {
			e := p.expr()
			p.expect(")")
			return e
		}
		if t.s == "[" && p.isOp("]") {
			p.p--
			return &ETypeLit{p.typeExpr()}
		}
		if t.s == "#" { // #name : engine-provided ghost local (e.g. #visited, #index)
			n := p.identName()
			return &EIdent{"#" + n}
		}
	}
	p.fail("unexpected %q", t.s)
	return nil
}
