package main

// Translation of contract expressions to SMT terms.

import (
	"fmt"
	"go/token"
	"go/types"
	"math/big"
	"strconv"
	"strings"

	"golang.org/x/tools/go/ssa"
)

type Env struct {
	g       *Gen
	ex      *Exec
	vars    map[string]Val
	st      *State
	old     *State
	pkgPath string
	hdr     *ssa.BasicBlock
	phi     map[*ssa.Phi]string
	fn      *ssa.Function // function whose locals may be named
	hints   []string
	cur     *State // state in which now(...) is evaluated (set when entering old(...))
	atCallSite bool // translating a callee's contract at a call site: callres/called of the callee are not available
}

type specErr struct{ msg string }

func (e specErr) Error() string { return e.msg }

func sfail(f string, a ...any) { panic(specErr{fmt.Sprintf(f, a...)}) }

func (env *Env) with(vars map[string]Val) *Env {
	n := *env
	n.vars = map[string]Val{}
	for k, v := range env.vars {
		n.vars[k] = v
	}
	for k, v := range vars {
		n.vars[k] = v
	}
	return &n
}

func (env *Env) inState(st *State) *Env {
	n := *env
	n.st = st
	return &n
}

// trBool translates a boolean contract expression.
func (env *Env) trBool(e Expr) (s string, err error) {
	defer func() {
		if r := recover(); r != nil {
			switch x := r.(type) {
			case specErr:
				err = fmt.Errorf("%s (in %s)", x.msg, e.String())
			case unsupported:
				err = fmt.Errorf("%s (in %s)", x.msg, e.String())
			default:
				panic(r)
			}
		}
	}()
	v := env.tr(e)
	if env.g.sortOfG(v.G) != "Bool" {
		sfail("expression is not boolean")
	}
	return v.S, nil
}

func (g *Gen) sortOfG(t GType) string {
	if t.Set != nil {
		return fmt.Sprintf("(Array %s Bool)", g.sortOfG(*t.Set))
	}
	if t.Math {
		return "Int"
	}
	if t.Unt {
		return g.intSort(64)
	}
	if t.Loc {
		return "Int"
	}
	if t.T == nil {
		return "Int"
	}
	return g.sortOf(t.T)
}

var tBool = GType{T: types.Typ[types.Bool]}
var tInt = GType{T: types.Typ[types.Int]}

func (env *Env) resolveType(te TypeExpr) GType {
	switch te.Kind {
	case "name":
		if te.Name == "Ref" {
			return GType{T: types.Typ[types.UnsafePointer]}
		}
		t := env.g.P.lookupNamed(env.pkgPath, te.Name)
		if t == nil {
			sfail("unknown type %s", te.Name)
		}
		return GType{T: t}
	case "ptr":
		e := env.resolveType(*te.Elem)
		return GType{T: types.NewPointer(e.T)}
	case "slice":
		e := env.resolveType(*te.Elem)
		return GType{T: types.NewSlice(e.T)}
	case "map":
		k := env.resolveType(*te.Key)
		e := env.resolveType(*te.Elem)
		return GType{T: types.NewMap(k.T, e.T)}
	case "set":
		e := env.resolveType(*te.Elem)
		return GType{Set: &e}
	}
	sfail("bad type expr")
	return GType{}
}

func (env *Env) value(v Val) Val {
	if v.G.Loc {
		return Val{S: env.ex.loadStruct(env.st, v.G.T, v.S), G: GType{T: v.G.T}}
	}
	return v
}

func structOf(t types.Type) (types.Type, bool) {
	if t == nil {
		return nil, false
	}
	if p, ok := t.Underlying().(*types.Pointer); ok {
		if _, ok := p.Elem().Underlying().(*types.Struct); ok {
			return p.Elem(), true
		}
	}
	return nil, false
}

func (env *Env) selField(v Val, i int) Val {
	g := env.g
	if v.G.Loc || func() bool { _, ok := structOf(v.G.T); return ok }() {
		stT := v.G.T
		if !v.G.Loc {
			stT, _ = structOf(v.G.T)
		}
		st := stT.Underlying().(*types.Struct)
		ft := st.Field(i).Type()
		if _, isSt := ft.Underlying().(*types.Struct); isSt {
			return Val{S: g.subRef(stT, i, v.S), G: GType{T: ft, Loc: true}}
		}
		return Val{S: fmt.Sprintf("(select %s %s)", env.ex.compGet(env.st, g.fieldComp(stT, i)), v.S), G: GType{T: ft}}
	}
	if st, ok := v.G.T.Underlying().(*types.Struct); ok {
		return Val{S: g.fieldSel(v.G.T, i, v.S), G: GType{T: st.Field(i).Type()}}
	}
	sfail("field selection on non-struct %s", v.G.T)
	return Val{}
}

func (env *Env) namedOf(t types.Type) (pkgPath, name string) {
	if p, ok := t.(*types.Pointer); ok {
		t = p.Elem()
	}
	if n, ok := t.(*types.Named); ok {
		if n.Obj().Pkg() != nil {
			pkgPath = n.Obj().Pkg().Path()
		}
		return pkgPath, n.Obj().Name()
	}
	return "", ""
}

func (env *Env) sel(v Val, name string) Val {
	g := env.g
	if v.G.T == nil {
		sfail("selection .%s on ghost value", name)
	}
	// ghost field?
	pk, tn := env.namedOf(v.G.T)
	if gc, ok := g.P.Ghosts[pk+"."+tn+"."+name]; ok {
		gt := env.resolveTypeIn(*gc.GType, gc.Pkg)
		comp := g.ghostComp(pk, tn, name, g.sortOfG(gt))
		if !(v.G.Loc || func() bool { _, ok := structOf(v.G.T); return ok }()) {
			sfail("ghost field %s needs a heap object (pointer receiver)", name)
		}
		return Val{S: fmt.Sprintf("(select %s %s)", env.ex.compGet(env.st, comp), v.S), G: gt}
	}
	t := v.G.T
	obj, index, _ := types.LookupFieldOrMethod(t, true, env.pkgOf(), name)
	if obj == nil {
		// try across packages (unexported fields of other repo packages)
		for _, p := range g.P.Pkgs {
			obj, index, _ = types.LookupFieldOrMethod(t, true, p.Types, name)
			if obj != nil {
				break
			}
		}
	}
	if obj == nil {
		sfail("no field %s in %s", name, t)
	}
	if _, isVar := obj.(*types.Var); !isVar {
		sfail("%s is a method, not a field (call it)", name)
	}
	cur := v
	for _, i := range index {
		// auto-deref pointer fields on the path
		cur = env.selField(cur, i)
	}
	return cur
}

func (env *Env) resolveTypeIn(te TypeExpr, pkg string) GType {
	n := *env
	n.pkgPath = pkg
	return n.resolveType(te)
}

func (env *Env) pkgOf() *types.Package {
	for _, p := range env.g.P.Pkgs {
		if p.PkgPath == env.pkgPath {
			return p.Types
		}
	}
	return nil
}

func (env *Env) lit(e *EInt) Val {
	s := e.Lit
	if strings.HasPrefix(s, "'") {
		r, _, _, err := strconv.UnquoteChar(s[1:len(s)-1], '\'')
		if err != nil {
			sfail("bad char literal %s", s)
		}
		return Val{S: fmt.Sprint(int(r)), G: GType{Unt: true}}
	}
	v, ok := new(big.Int).SetString(strings.ReplaceAll(s, "_", ""), 0)
	if !ok {
		sfail("bad integer %s", s)
	}
	return Val{S: v.String(), G: GType{Unt: true}}
}

// adapt an untyped constant to a type
func (env *Env) adapt(v Val, to GType) Val {
	if !v.G.Unt {
		return v
	}
	n, _ := new(big.Int).SetString(v.S, 10)
	if to.Math {
		if n.Sign() < 0 {
			return Val{S: fmt.Sprintf("(- %s)", new(big.Int).Neg(n).String()), G: to}
		}
		return Val{S: n.String(), G: to}
	}
	if to.Unt || to.T == nil {
		return Val{S: env.g.intLit(n, 64), G: tInt}
	}
	bits, _, ok := intInfo(to.T)
	if !ok {
		if b, isb := to.T.Underlying().(*types.Basic); isb && b.Info()&types.IsFloat != 0 {
			return Val{S: n.String() + ".0", G: to}
		}
		sfail("integer constant used as %s", to.T)
	}
	return Val{S: env.g.intLit(n, bits), G: to}
}

func (env *Env) lookupIdent(name string) (Val, bool) {
	if v, ok := env.vars[name]; ok {
		if v.G.T != nil && v.G.Loc == false && v.S != "" && strings.HasPrefix(v.S, "cell:") {
			// captured variable cell: read in current state
			ref := strings.TrimPrefix(v.S, "cell:")
			if _, isSt := v.G.T.Underlying().(*types.Struct); isSt {
				return Val{S: ref, G: GType{T: v.G.T, Loc: true}}, true
			}
			return Val{S: fmt.Sprintf("(select %s %s)", env.ex.compGet(env.st, env.g.cellComp(v.G.T)), ref), G: GType{T: v.G.T}}, true
		}
		return v, true
	}
	if env.fn != nil && env.ex != nil {
		if strings.HasPrefix(name, "#") {
			// #X: current value of source variable X even if X is a parameter that the body reassigns
			if v, ok := env.ex.lookupLocalX(env, name[1:], true); ok {
				return v, true
			}
		} else if v, ok := env.ex.lookupLocal(env, name); ok {
			return v, true
		}
	}
	if gv, ok := env.g.P.GhostVars[name]; ok {
		gt := env.resolveTypeIn(*gv.GType, gv.Pkg)
		comp := "GV:" + name
		env.g.compDecl(comp, env.g.sortOfG(gt))
		return Val{S: env.ex.compGet(env.st, comp), G: gt}, true
	}
	// package-level variable
	if pk := env.pkgOf(); pk != nil {
		if o := pk.Scope().Lookup(name); o != nil {
			switch o := o.(type) {
			case *types.Const:
				return Val{S: env.g.constVal(o.Type(), o.Val()), G: GType{T: o.Type()}}, true
			case *types.Var:
				sp := env.g.P.SSAPkgs[env.pkgPath]
				if sp != nil {
					if gl, ok := sp.Members[name].(*ssa.Global); ok {
						ref := env.ex.globalRef(gl)
						if _, isSt := o.Type().Underlying().(*types.Struct); isSt {
							return Val{S: ref, G: GType{T: o.Type(), Loc: true}}, true
						}
						return Val{S: fmt.Sprintf("(select %s %s)", env.ex.compGet(env.st, env.g.cellComp(o.Type())), ref), G: GType{T: o.Type()}}, true
					}
				}
			}
		}
	}
	return Val{}, false
}

func (env *Env) tr(e Expr) Val {
	g := env.g
	switch x := e.(type) {
	case *EBool:
		if x.V {
			return Val{"true", tBool}
		}
		return Val{"false", tBool}
	case *EInt:
		return env.lit(x)
	case *EString:
		s, err := strconv.Unquote(x.Lit)
		if err != nil {
			sfail("bad string literal %s", x.Lit)
		}
		return Val{g.strLit(s), GType{T: types.Typ[types.String]}}
	case *ENil:
		return Val{"nil", GType{T: types.Typ[types.UntypedNil]}}
	case *EIdent:
		if v, ok := env.lookupIdent(x.Name); ok {
			return v
		}
		sfail("unknown identifier %s", x.Name)
	case *EOld:
		if env.old == nil {
			sfail("old() not available here")
		}
		n := env.inState(env.old)
		if n.cur == nil {
			n.cur = env.st
		}
		return n.value(n.tr(x.X))
	case *ESel:
		// qualified constant pkg.Name?
		if id, ok := x.X.(*EIdent); ok {
			if _, isVar := env.lookupIdent(id.Name); !isVar {
				if v, ok := env.qualified(id.Name, x.Name); ok {
					return v
				}
			}
		}
		return env.sel(env.tr(x.X), x.Name)
	case *EDeref:
		v := env.tr(x.X)
		p, ok := v.G.T.Underlying().(*types.Pointer)
		if !ok {
			sfail("deref of non-pointer")
		}
		if _, isSt := p.Elem().Underlying().(*types.Struct); isSt {
			return Val{S: v.S, G: GType{T: p.Elem(), Loc: true}}
		}
		return Val{S: fmt.Sprintf("(select %s %s)", env.ex.compGet(env.st, g.cellComp(p.Elem())), v.S), G: GType{T: p.Elem()}}
	case *EIndex:
		return env.index(env.tr(x.X), x.I)
	case *ESlice:
		v := env.value(env.tr(x.X))
		if _, ok := v.G.T.Underlying().(*types.Slice); !ok {
			sfail("slice expression on non-slice")
		}
		lo := "0"
		if x.Lo != nil {
			lo = env.adapt(env.tr(x.Lo), tInt).S
		}
		hi := fmt.Sprintf("(s.len %s)", v.S)
		if x.Hi != nil {
			hi = env.adapt(env.tr(x.Hi), tInt).S
		}
		return Val{S: fmt.Sprintf("(mk-slice (s.arr %s) (+ (s.off %s) %s) (- %s %s) (- (s.cap %s) %s))", v.S, v.S, lo, hi, lo, v.S, lo), G: v.G}
	case *EUnary:
		v := env.tr(x.X)
		switch x.Op {
		case "!":
			return Val{fmt.Sprintf("(not %s)", v.S), tBool}
		case "-":
			if v.G.Unt {
				n, _ := new(big.Int).SetString(v.S, 10)
				return Val{S: new(big.Int).Neg(n).String(), G: v.G}
			}
			if g.mode == "bv" {
				return Val{fmt.Sprintf("(bvneg %s)", v.S), v.G}
			}
			return Val{fmt.Sprintf("(- %s)", v.S), v.G}
		}
	case *EBinary:
		return env.binary(x)
	case *EQuant:
		return env.quant(x)
	case *ELit:
		gt := env.resolveType(x.Type)
		st, ok := gt.T.Underlying().(*types.Struct)
		if !ok {
			sfail("composite literal of non-struct type")
		}
		vals := make([]string, st.NumFields())
		for i := range vals {
			vals[i] = g.zero(st.Field(i).Type())
		}
		for k, fname := range x.Fields {
			found := false
			for i := 0; i < st.NumFields(); i++ {
				if st.Field(i).Name() == fname {
					fv := env.adapt(env.value(env.tr(x.Vals[k])), GType{T: st.Field(i).Type()})
					if fv.S == "nil" {
						fv.S = g.zero(st.Field(i).Type())
					}
					vals[i] = fv.S
					found = true
				}
			}
			if !found {
				sfail("no field %s", fname)
			}
		}
		return Val{g.mkStruct(gt.T, vals), gt}
	case *ECall:
		return env.call(x)
	}
	sfail("cannot translate %s", e.String())
	return Val{}
}

func (env *Env) qualified(pkgName, name string) (Val, bool) {
	for _, p := range env.g.P.Pkgs {
		cands := []*types.Package{p.Types}
		cands = append(cands, p.Types.Imports()...)
		for _, tp := range cands {
			if tp.Name() == pkgName {
				if o := tp.Scope().Lookup(name); o != nil {
					if c, ok := o.(*types.Const); ok {
						return Val{S: env.g.constVal(c.Type(), c.Val()), G: GType{T: c.Type()}}, true
					}
					if v, ok := o.(*types.Var); ok && env.ex != nil {
						var gl *ssa.Global
						if sp := env.g.P.SSAPkgs[tp.Path()]; sp != nil {
							gl, _ = sp.Members[name].(*ssa.Global)
						} else if sp := env.g.P.Prog.ImportedPackage(tp.Path()); sp != nil {
							gl, _ = sp.Members[name].(*ssa.Global) // variable of a dependency (e.g. gocb.ErrTimeout)
						}
						{
							if gl != nil {
								ref := env.ex.globalRef(gl)
								if _, isSt := v.Type().Underlying().(*types.Struct); isSt {
									return Val{S: ref, G: GType{T: v.Type(), Loc: true}}, true
								}
								return Val{S: fmt.Sprintf("(select %s %s)", env.ex.compGet(env.st, env.g.cellComp(v.Type())), ref), G: GType{T: v.Type()}}, true
							}
						}
					}
				}
			}
		}
	}
	return Val{}, false
}

func (env *Env) index(v Val, ie Expr) Val {
	g := env.g
	if v.G.Set != nil {
		k := env.adapt(env.value(env.tr(ie)), *v.G.Set)
		return Val{fmt.Sprintf("(select %s %s)", v.S, k.S), tBool}
	}
	v = env.value(v)
	switch t := v.G.T.Underlying().(type) {
	case *types.Slice:
		i := env.adapt(env.tr(ie), tInt)
		return Val{S: fmt.Sprintf("(select (select %s (s.arr %s)) (sl.ix %s %s))", env.ex.compGet(env.st, g.arrComp(t.Elem())), v.S, v.S, env.ex.toMathInt(i.S, types.Typ[types.Int])), G: GType{T: t.Elem()}}
	case *types.Array:
		i := env.adapt(env.tr(ie), tInt)
		return Val{S: fmt.Sprintf("(select %s %s)", v.S, i.S), G: GType{T: t.Elem()}}
	case *types.Map:
		k := env.adapt(env.value(env.tr(ie)), GType{T: t.Key()})
		hasA, valA, _ := env.ex.mapTerms(env.st, v.S, t)
		return Val{S: fmt.Sprintf("(ite (and (not (= %s 0)) (select %s %s)) (select %s %s) %s)", v.S, hasA, k.S, valA, k.S, g.zero(t.Elem())), G: GType{T: t.Elem()}}
	case *types.Basic:
		g.needByteAt()
		i := env.adapt(env.tr(ie), tInt)
		return Val{S: env.ex.byteVal(fmt.Sprintf("(st.at %s %s)", v.S, i.S)), G: GType{T: types.Typ[types.Uint8]}}
	}
	sfail("cannot index %s", v.G.T)
	return Val{}
}

func (env *Env) nilOf(t GType) string {
	if t.T == nil {
		sfail("nil compared with ghost value")
	}
	return env.g.zero(t.T)
}

func (env *Env) binary(x *EBinary) Val {
	_ = env.g
	switch x.Op {
	case "&&", "||", "==>", "<==>":
		a, b := env.tr(x.X), env.tr(x.Y)
		op := map[string]string{"&&": "and", "||": "or", "==>": "=>", "<==>": "="}[x.Op]
		return Val{fmt.Sprintf("(%s %s %s)", op, a.S, b.S), tBool}
	case "in":
		k := env.tr(x.X)
		c := env.tr(x.Y)
		if c.G.Set != nil {
			k = env.adapt(env.value(k), *c.G.Set)
			return Val{fmt.Sprintf("(select %s %s)", c.S, k.S), tBool}
		}
		c = env.value(c)
		if mt, ok := c.G.T.Underlying().(*types.Map); ok {
			k = env.adapt(env.value(k), GType{T: mt.Key()})
			hasA, _, _ := env.ex.mapTerms(env.st, c.S, mt)
			return Val{fmt.Sprintf("(and (not (= %s 0)) (select %s %s))", c.S, hasA, k.S), tBool}
		}
		sfail("`in` needs a map or set")
	}
	a, b := env.tr(x.X), env.tr(x.Y)
	// nil handling
	if a.S == "nil" && b.S == "nil" {
		return Val{map[string]string{"==": "true", "!=": "false"}[x.Op], tBool}
	}
	if b.S == "nil" || a.S == "nil" {
		o := a
		if a.S == "nil" {
			o = b
		}
		var eq string
		if o.G.Loc {
			sfail("struct compared with nil")
		}
		switch o.G.T.Underlying().(type) {
		case *types.Slice:
			eq = fmt.Sprintf("(= (s.arr %s) 0)", o.S)
		case *types.Interface:
			eq = fmt.Sprintf("(= (i.tag %s) 0)", o.S)
		default:
			eq = fmt.Sprintf("(= %s 0)", o.S)
		}
		if x.Op == "!=" {
			eq = fmt.Sprintf("(not %s)", eq)
		} else if x.Op != "==" {
			sfail("bad operator with nil")
		}
		return Val{eq, tBool}
	}
	// sets
	if a.G.Set != nil || b.G.Set != nil {
		switch x.Op {
		case "==":
			return Val{fmt.Sprintf("(= %s %s)", a.S, b.S), tBool}
		case "!=":
			return Val{fmt.Sprintf("(not (= %s %s))", a.S, b.S), tBool}
		}
		sfail("operator %s on sets (use union/minus/...)", x.Op)
	}
	a, b = env.value(a), env.value(b)
	if a.G.Math || b.G.Math {
		tm := GType{Math: true}
		toM := func(v Val) Val {
			if v.G.Math {
				return v
			}
			if v.G.Unt {
				return env.adapt(v, tm)
			}
			if _, _, ok := intInfo(v.G.T); !ok {
				sfail("mathematical integer mixed with non-integer")
			}
			return Val{env.ex.toMathInt(v.S, v.G.T), tm}
		}
		a, b = toM(a), toM(b)
		switch x.Op {
		case "==":
			return Val{fmt.Sprintf("(= %s %s)", a.S, b.S), tBool}
		case "!=":
			return Val{fmt.Sprintf("(not (= %s %s))", a.S, b.S), tBool}
		case "<", "<=", ">", ">=":
			return Val{fmt.Sprintf("(%s %s %s)", x.Op, a.S, b.S), tBool}
		case "+", "-", "*":
			return Val{fmt.Sprintf("(%s %s %s)", x.Op, a.S, b.S), tm}
		}
		sfail("operator %s on mathematical integers", x.Op)
	}
	if a.G.Unt && !b.G.Unt {
		a = env.adapt(a, b.G)
	} else if b.G.Unt && !a.G.Unt {
		b = env.adapt(b, a.G)
	} else if a.G.Unt && b.G.Unt {
		a, b = env.adapt(a, tInt), env.adapt(b, tInt)
	}
	tokOf := map[string]token.Token{"==": token.EQL, "!=": token.NEQ, "<": token.LSS, "<=": token.LEQ, ">": token.GTR, ">=": token.GEQ,
		"+": token.ADD, "-": token.SUB, "*": token.MUL, "/": token.QUO, "%": token.REM, "&": token.AND, "|": token.OR, "^": token.XOR,
		"<<": token.SHL, ">>": token.SHR, "&^": token.AND_NOT}
	tk, ok := tokOf[x.Op]
	if !ok {
		sfail("unknown operator %s", x.Op)
	}
	if a.G.T == nil {
		sfail("operator %s on ghost value", x.Op)
	}
	if sa, sb := env.g.sortOfG(a.G), env.g.sortOfG(b.G); sa != sb && x.Op != "<<" && x.Op != ">>" {
		sfail("operands of %s have different sorts (%s vs %s): for an error compared with a package variable use box(...)", x.Op, sa, sb)
	}
	res := env.ex.binop(tk, a.G.T, a.S, b.S, b.G.T)
	switch x.Op {
	case "==", "!=", "<", "<=", ">", ">=":
		return Val{res, tBool}
	}
	return Val{res, a.G}
}

func (env *Env) quant(q *EQuant) Val {
	g := env.g
	vars := map[string]Val{}
	var decl []string
	var ranges []string
	for _, b := range q.Vars {
		gt := env.resolveType(b.Type)
		g.nfresh++
		n := fmt.Sprintf("|q.%s.%d|", b.Name, g.nfresh)
		decl = append(decl, fmt.Sprintf("(%s %s)", n, g.sortOfG(gt)))
		vars[b.Name] = Val{n, gt}
		if gt.T != nil {
			if _, signed, isInt := intInfo(gt.T); isInt && !signed {
				if rf := g.rangeFact(gt.T, n); rf != "" {
					ranges = append(ranges, rf)
				}
			} else if !isInt {
				if rf := g.rangeFact(gt.T, n); rf != "" {
					ranges = append(ranges, rf)
				}
			}
		}
	}
	inner := env.with(vars)
	body := inner.tr(q.Body)
	if g.sortOfG(body.G) != "Bool" {
		sfail("quantifier body not boolean")
	}
	bs := body.S
	if len(ranges) > 0 {
		r := "(and " + strings.Join(ranges, " ") + ")"
		if len(ranges) == 1 {
			r = ranges[0]
		}
		if q.Forall {
			bs = fmt.Sprintf("(=> %s %s)", r, bs)
		} else {
			bs = fmt.Sprintf("(and %s %s)", r, bs)
		}
	}
	if len(q.Triggers) > 0 {
		var pats []string
		for _, tr := range q.Triggers {
			var ts []string
			for _, t := range tr {
				ts = append(ts, inner.trTrigger(t))
			}
			pats = append(pats, ":pattern ("+strings.Join(ts, " ")+")")
		}
		bs = fmt.Sprintf("(! %s %s)", bs, strings.Join(pats, " "))
	}
	kw := "exists"
	if q.Forall {
		kw = "forall"
	}
	return Val{fmt.Sprintf("(%s (%s) %s)", kw, strings.Join(decl, " "), bs), tBool}
}

// trTrigger: a quantifier pattern must be a term without connectives; `k in m` uses the bare select.
func (env *Env) trTrigger(e Expr) string {
	if b, ok := e.(*EBinary); ok && b.Op == "in" {
		k := env.tr(b.X)
		c := env.tr(b.Y)
		if c.G.Set != nil {
			k = env.adapt(env.value(k), *c.G.Set)
			return fmt.Sprintf("(select %s %s)", c.S, k.S)
		}
		c = env.value(c)
		if mt, ok := c.G.T.Underlying().(*types.Map); ok {
			k = env.adapt(env.value(k), GType{T: mt.Key()})
			hasA, _, _ := env.ex.mapTerms(env.st, c.S, mt)
			return fmt.Sprintf("(select %s %s)", hasA, k.S)
		}
	}
	if o, ok := e.(*EOld); ok {
		n := env.inState(env.old)
		if n.cur == nil {
			n.cur = env.st
		}
		return n.trTrigger(o.X)
	}
	return env.tr(e).S
}

func (env *Env) call(c *ECall) Val {
	g := env.g
	// method call?
	if sel, ok := c.Fun.(*ESel); ok {
		// pkg-qualified function?
		if id, isId := sel.X.(*EIdent); isId {
			if _, isVar := env.lookupIdent(id.Name); !isVar {
				return env.callNamed(id.Name+"."+sel.Name, c.Args)
			}
		}
		recv := env.tr(sel.X)
		return env.methodCall(recv, sel.Name, c.Args)
	}
	id, ok := c.Fun.(*EIdent)
	if !ok {
		sfail("cannot call %s", c.Fun.String())
	}
	arg := func(i int) Val { return env.tr(c.Args[i]) }
	need := func(n int) {
		if len(c.Args) != n {
			sfail("%s takes %d arguments", id.Name, n)
		}
	}
	switch id.Name {
	case "len", "cap":
		need(1)
		v := env.value(arg(0))
		if v.G.Set != nil {
			sfail("len of set not supported")
		}
		switch t := v.G.T.Underlying().(type) {
		case *types.Slice:
			f := "s.len"
			if id.Name == "cap" {
				f = "s.cap"
			}
			return Val{env.ex.fromMathInt(fmt.Sprintf("(%s %s)", f, v.S)), tInt}
		case *types.Basic:
			return Val{env.ex.fromMathInt(fmt.Sprintf("(st.len %s)", v.S)), tInt}
		case *types.Map:
			_, _, ln := env.ex.mapTerms(env.st, v.S, t)
			return Val{env.ex.fromMathInt(fmt.Sprintf("(ite (= %s 0) 0 %s)", v.S, ln)), tInt}
		case *types.Array:
			return Val{g.intLit(big.NewInt(t.Len()), 64), tInt}
		}
		sfail("len of %s", v.G.T)
	case "keys":
		need(1)
		v := env.value(arg(0))
		mt, ok := v.G.T.Underlying().(*types.Map)
		if !ok {
			sfail("keys of non-map")
		}
		hasA, _, _ := env.ex.mapTerms(env.st, v.S, mt)
		ks := g.sortOf(mt.Key())
		kt := GType{T: mt.Key()}
		return Val{fmt.Sprintf("(ite (= %s 0) ((as const (Array %s Bool)) false) %s)", v.S, ks, hasA), GType{Set: &kt}}
	case "elem":
		need(2)
		s := env.value(arg(0))
		st, ok := s.G.T.Underlying().(*types.Slice)
		if !ok {
			sfail("elem needs a slice")
		}
		xv := env.adapt(env.value(arg(1)), GType{T: st.Elem()})
		arr := fmt.Sprintf("(select %s (s.arr %s))", env.ex.compGet(env.st, g.arrComp(st.Elem())), s.S)
		// absolute position ep in the backing array (stable under reslicing); the last conjunct names the
		// index-relative form of the same position so that index-style quantifiers match the witness.
		// (inside old(...) the bridge is omitted: bridging both the pre- and the post-state lists lets
		// "kept"/"no new element" style facts feed each other for ever — a matching loop.)
		bridge := fmt.Sprintf(" (= ep (sl.ix %s (- ep (s.off %s))))", s.S, s.S)
		if env.cur != nil {
			bridge = ""
		}
		return Val{fmt.Sprintf("(exists ((ep Int)) (! (and (<= (s.off %s) ep) (< ep (+ (s.off %s) (s.len %s))) (= (select %s ep) %s)%s) :pattern ((select %s ep))))", s.S, s.S, s.S, arr, xv.S, bridge, arr), tBool}
	case "union", "minus", "inter":
		need(2)
		a, b := arg(0), arg(1)
		if a.G.Set == nil || b.G.Set == nil {
			sfail("%s needs sets", id.Name)
		}
		es := g.sortOfG(*a.G.Set)
		g.setOps(es)
		return Val{fmt.Sprintf("(|set.%s:%s| %s %s)", id.Name, es, a.S, b.S), a.G}
	case "subset", "disjoint":
		need(2)
		a, b := arg(0), arg(1)
		if a.G.Set == nil || b.G.Set == nil {
			sfail("%s needs sets", id.Name)
		}
		es := g.sortOfG(*a.G.Set)
		if id.Name == "subset" {
			return Val{fmt.Sprintf("(forall ((x %s)) (! (=> (select %s x) (select %s x)) :pattern ((select %s x)) :pattern ((select %s x))))", es, a.S, b.S, a.S, b.S), tBool}
		}
		return Val{fmt.Sprintf("(forall ((x %s)) (! (not (and (select %s x) (select %s x))) :pattern ((select %s x)) :pattern ((select %s x))))", es, a.S, b.S, a.S, b.S), tBool}
	case "single":
		need(1)
		v := env.value(arg(0))
		if v.G.Unt {
			sfail("single() needs a typed value")
		}
		es := g.sortOfG(v.G)
		e := v.G
		return Val{fmt.Sprintf("(store ((as const (Array %s Bool)) false) %s true)", es, v.S), GType{Set: &e}}
	case "interval": // closed interval [a,b] of a typed integer
		need(2)
		a, b := env.value(arg(0)), env.value(arg(1))
		if a.G.Unt && !b.G.Unt {
			a = env.adapt(a, b.G)
		} else if b.G.Unt && !a.G.Unt {
			b = env.adapt(b, a.G)
		}
		if a.G.Unt {
			a, b = env.adapt(a, tInt), env.adapt(b, tInt)
		}
		es := g.sortOfG(a.G)
		fn := "|set.interval:" + es + "|"
		if g.mode == "bv" {
			_, signed, _ := intInfo(a.G.T)
			le := "bvule"
			if signed {
				le = "bvsle"
			}
			g.decl("fn:"+fn, fmt.Sprintf("(declare-fun %s (%s %s) (Array %s Bool))", fn, es, es, es))
			g.decl("ax:"+fn, fmt.Sprintf("(assert (forall ((a %s) (b %s) (x %s)) (! (= (select (%s a b) x) (and (%s a x) (%s x b))) :pattern ((select (%s a b) x)))))", es, es, es, fn, le, le, fn))
		} else {
			g.decl("fn:"+fn, fmt.Sprintf("(declare-fun %s (%s %s) (Array %s Bool))", fn, es, es, es))
			g.decl("ax:"+fn, fmt.Sprintf("(assert (forall ((a %s) (b %s) (x %s)) (! (= (select (%s a b) x) (and (<= a x) (<= x b))) :pattern ((select (%s a b) x)))))", es, es, es, fn, fn))
		}
		e := a.G
		return Val{fmt.Sprintf("(%s %s %s)", fn, a.S, b.S), GType{Set: &e}}
	case "empty":
		// empty(T): empty set of element type named by argument identifier
		need(1)
		te, err := parseTypeString(c.Args[0].String())
		if err != nil {
			sfail("empty(T): %v", err)
		}
		gt := env.resolveType(te)
		return Val{fmt.Sprintf("((as const (Array %s Bool)) false)", g.sortOfG(gt)), GType{Set: &gt}}
	case "ite":
		need(3)
		cnd, a, b := arg(0), env.value(arg(1)), env.value(arg(2))
		if a.S == "nil" && b.S != "nil" && b.G.T != nil {
			a = Val{g.zero(b.G.T), b.G}
		} else if b.S == "nil" && a.S != "nil" && a.G.T != nil {
			b = Val{g.zero(a.G.T), a.G}
		}
		if a.G.Unt && !b.G.Unt {
			a = env.adapt(a, b.G)
		} else if b.G.Unt && !a.G.Unt {
			b = env.adapt(b, a.G)
		} else if a.G.Unt {
			a, b = env.adapt(a, tInt), env.adapt(b, tInt)
		}
		return Val{fmt.Sprintf("(ite %s %s %s)", cnd.S, a.S, b.S), a.G}
	case "min", "max":
		need(2)
		a, b := env.value(arg(0)), env.value(arg(1))
		if a.G.Unt && !b.G.Unt {
			a = env.adapt(a, b.G)
		} else if b.G.Unt && !a.G.Unt {
			b = env.adapt(b, a.G)
		} else if a.G.Unt {
			a, b = env.adapt(a, tInt), env.adapt(b, tInt)
		}
		tk := token.LSS
		if id.Name == "max" {
			tk = token.GTR
		}
		return Val{fmt.Sprintf("(ite %s %s %s)", env.ex.binop(tk, a.G.T, a.S, b.S, b.G.T), a.S, b.S), a.G}
	case "isNilErr":
		need(1)
		v := arg(0)
		return Val{fmt.Sprintf("(= (i.tag %s) 0)", v.S), tBool}
	case "allocated":
		need(1)
		v := env.value(arg(0))
		ref := v.S
		if v.G.T != nil {
			if _, isSl := v.G.T.Underlying().(*types.Slice); isSl {
				ref = fmt.Sprintf("(s.arr %s)", v.S) // a slice is "allocated" when its backing array is
			}
		}
		return Val{fmt.Sprintf("(select %s %s)", env.ex.compGet(env.st, g.allocComp()), ref), tBool}
	case "string": // string(b) for a []byte b: the string spelled by its current contents
		need(1)
		v := env.value(arg(0))
		if v.G.T != nil {
			if sli, ok := v.G.T.Underlying().(*types.Slice); ok {
				if b, ok := sli.Elem().Underlying().(*types.Basic); ok && b.Kind() == types.Uint8 {
					return Val{env.ex.ofBytes(env.st, sli.Elem(), v.S), GType{T: types.Typ[types.String]}}
				}
			}
			if b, ok := v.G.T.Underlying().(*types.Basic); ok && b.Info()&types.IsString != 0 {
				return Val{v.S, GType{T: types.Typ[types.String]}}
			}
		}
		sfail("string(x): x must be a []byte or a string")
	case "sameArray": // two slices share their backing array
		need(2)
		a, b := env.value(arg(0)), env.value(arg(1))
		return Val{fmt.Sprintf("(= (s.arr %s) (s.arr %s))", a.S, b.S), tBool}
	case "int", "uint64", "int64", "uint32", "uint", "int32", "uint8", "byte", "uint16":
		need(1)
		v := env.value(arg(0))
		to := env.resolveType(TypeExpr{Kind: "name", Name: id.Name})
		if v.G.Unt {
			return env.adapt(v, to)
		}
		return Val{env.ex.convert(v.G.T, to.T, v.S), to}
	case "called": // called(Callee, n): the n-th call of Callee was executed on this path
		need(2)
		cid, ok := c.Args[0].(*EIdent)
		if !ok {
			sfail("called(Callee, n)")
		}
		n, _ := strconv.Atoi(c.Args[1].String())
		if env.atCallSite {
			sfail("called: not available at a call site")
		}
		for _, rec := range env.ex.callLog {
			if rec.short == cid.Name && rec.ord == n {
				pc := rec.pc
				if pc == "" {
					pc = "true"
				}
				return Val{pc, tBool}
			}
		}
		if env.ex.fn != nil && fnHasCallee(env.ex.fn, cid.Name) {
			return Val{"false", tBool} // that call comes later in program order (or is unreachable): not executed on this path
		}
		sfail("called: no call %s#%d on record", cid.Name, n)
	case "callres": // callres(Callee, n, i): i-th result of the n-th call of Callee in this function
		need(3)
		cid, ok := c.Args[0].(*EIdent)
		if !ok {
			sfail("callres(Callee, n, i)")
		}
		n, _ := strconv.Atoi(c.Args[1].String())
		i, _ := strconv.Atoi(c.Args[2].String())
		if env.atCallSite {
			sfail("callres: not available at a call site")
		}
		for _, rec := range env.ex.callLog {
			if rec.short == cid.Name && rec.ord == n {
				if i >= len(rec.res) {
					sfail("callres: call %s#%d has %d results", cid.Name, n, len(rec.res))
				}
				var t types.Type
				if v, ok := rec.instr.(ssa.Value); ok {
					if tt, isT := v.Type().(*types.Tuple); isT {
						t = tt.At(i).Type()
					} else {
						t = v.Type()
					}
				}
				return Val{rec.res[i], GType{T: t}}
			}
		}
		sfail("callres: no call %s#%d on record", cid.Name, n)
	case "fst", "snd", "third":
		need(1)
		v := arg(0)
		if v.G.Tuple == nil {
			sfail("%s needs a multi-result pure call", id.Name)
		}
		i := map[string]int{"fst": 0, "snd": 1, "third": 2}[id.Name]
		parts := strings.Split(v.S, "\x00")
		if i >= len(parts) {
			sfail("%s: tuple has only %d components", id.Name, len(parts))
		}
		return Val{parts[i], v.G.Tuple[i]}
	case "now": // inside old(...): evaluate in the current state
		need(1)
		if env.cur == nil {
			return arg(0)
		}
		ne := env.inState(env.cur)
		return ne.value(ne.tr(c.Args[0]))
	case "mi": // mathematical integer value of a machine integer
		need(1)
		v := env.value(arg(0))
		if v.G.Unt {
			return env.adapt(v, GType{Math: true})
		}
		if _, _, ok := intInfo(v.G.T); !ok {
			sfail("mi() needs an integer")
		}
		return Val{env.ex.toMathInt(v.S, v.G.T), GType{Math: true}}
	case "box":
		need(1)
		v := env.value(arg(0))
		if v.G.Unt || v.G.T == nil {
			sfail("box() needs a typed value")
		}
		return Val{env.ex.makeIface(v.G.T, v.S), GType{T: types.NewInterfaceType(nil, nil)}}
	case "unbox":
		need(2)
		v := arg(0)
		te, err := parseTypeString(c.Args[1].String())
		if err != nil {
			sfail("unbox(x, T): %v", err)
		}
		gt := env.resolveType(te)
		return Val{env.ex.unboxIface(gt.T, v.S), gt}
	case "dynType":
		need(1)
		v := arg(0)
		return Val{fmt.Sprintf("(i.tag %s)", v.S), tInt}
	case "typeTag":
		need(1)
		te, err := parseTypeString(c.Args[0].String())
		if err != nil {
			sfail("typeTag(T): %v", err)
		}
		gt := env.resolveType(te)
		return Val{fmt.Sprint(g.typeTag(gt.T)), tInt}
	}
	return env.callNamed(id.Name, c.Args)
}

func fnHasCallee(fn *ssa.Function, short string) bool {
	for _, b := range fn.Blocks {
		for _, in := range b.Instrs {
			if ci, ok := in.(ssa.CallInstruction); ok && calleeShortName(ci.Common()) == short {
				return true
			}
		}
	}
	return false
}

func (g *Gen) setOps(es string) {
	for _, op := range []struct{ n, body string }{
		{"union", "(or (select a x) (select b x))"},
		{"minus", "(and (select a x) (not (select b x)))"},
		{"inter", "(and (select a x) (select b x))"},
	} {
		fn := fmt.Sprintf("|set.%s:%s|", op.n, es)
		if g.declared["fn:"+fn] {
			continue
		}
		g.declared["fn:"+fn] = true
		g.decls = append(g.decls, fmt.Sprintf("(declare-fun %s ((Array %s Bool) (Array %s Bool)) (Array %s Bool))", fn, es, es, es))
		g.decls = append(g.decls, fmt.Sprintf("(assert (forall ((a (Array %s Bool)) (b (Array %s Bool)) (x %s)) (! (= (select (%s a b) x) %s) :pattern ((select (%s a b) x)))))", es, es, es, fn, op.body, fn))
	}
}

// callNamed: pred / spec fn / pure Go function of the package.
func (env *Env) callNamed(name string, args []Expr) Val {
	g := env.g
	if p, ok := g.P.Preds[name]; ok {
		return env.applyPred(p, args)
	}
	// Go function
	key := env.pkgPath + "." + name
	if i := strings.Index(name, "."); i >= 0 {
		// pkg.Func -> find package by name
		for _, p := range g.P.Pkgs {
			if p.Types.Name() == name[:i] {
				key = p.PkgPath + "." + name[i+1:]
			}
		}
	}
	fn := g.P.Funcs[key]
	con := g.P.Contracts[key]
	if fn == nil || con == nil || !con.Pure {
		sfail("%s is not a pred, spec fn or pure function under contract", name)
	}
	var argS []string
	for i, a := range args {
		v := env.value(env.tr(a))
		v = env.adapt(v, GType{T: fn.Params[i].Type()})
		if v.S == "nil" {
			v.S = g.zero(fn.Params[i].Type())
		}
		argS = append(argS, v.S)
	}
	return env.pureResult(fn, con, argS)
}

func (env *Env) methodCall(recv Val, name string, args []Expr) Val {
	g := env.g
	if recv.G.T == nil {
		sfail("method call on ghost value")
	}
	t := recv.G.T
	if recv.G.Loc {
		t = types.NewPointer(t)
	}
	obj, index, _ := types.LookupFieldOrMethod(t, true, env.pkgOf(), name)
	if obj == nil {
		for _, p := range g.P.Pkgs {
			obj, index, _ = types.LookupFieldOrMethod(t, true, p.Types, name)
			if obj != nil {
				break
			}
		}
	}
	mf, ok := obj.(*types.Func)
	if !ok {
		sfail("no method %s on %s", name, t)
	}
	// method promoted from an embedded struct: walk to the embedded receiver
	for _, i := range index[:len(index)-1] {
		recv = env.selField(recv, i)
	}
	key := methodKey(mf)
	fn := g.P.Funcs[key]
	con := g.P.Contracts[key]
	if fn == nil || con == nil || !con.Pure {
		sfail("method %s is not a pure function under contract", shortKey(key))
	}
	// receiver adaptation
	rt := fn.Params[0].Type()
	var rS string
	if _, wantPtr := rt.Underlying().(*types.Pointer); wantPtr {
		if recv.G.Loc {
			rS = recv.S
		} else if _, isPtr := recv.G.T.Underlying().(*types.Pointer); isPtr {
			rS = recv.S
		} else {
			sfail("method %s needs an addressable receiver", name)
		}
	} else {
		v := recv
		if _, isPtr := recv.G.T.Underlying().(*types.Pointer); isPtr && !recv.G.Loc {
			if _, isSt := structOf(recv.G.T); isSt {
				st, _ := structOf(recv.G.T)
				v = Val{S: recv.S, G: GType{T: st, Loc: true}}
			}
		}
		rS = env.value(v).S
	}
	argS := []string{rS}
	for i, a := range args {
		v := env.value(env.tr(a))
		v = env.adapt(v, GType{T: fn.Params[i+1].Type()})
		if v.S == "nil" {
			v.S = g.zero(fn.Params[i+1].Type())
		}
		argS = append(argS, v.S)
	}
	return env.pureResult(fn, con, argS)
}

func (env *Env) pureResult(fn *ssa.Function, con *Contract, argS []string) Val {
	terms := env.ex.applyPureN(env.st, fn, con, argS)
	if len(terms) == 1 {
		return Val{terms[0], GType{T: fn.Signature.Results().At(0).Type()}}
	}
	var ts []GType
	for i := range terms {
		ts = append(ts, GType{T: fn.Signature.Results().At(i).Type()})
	}
	return Val{strings.Join(terms, "\x00"), GType{Tuple: ts}}
}

func (env *Env) applyPred(p *Contract, args []Expr) Val {
	g := env.g
	if len(args) != len(p.Params) {
		sfail("pred %s takes %d arguments", p.Name, len(p.Params))
	}
	penv := &Env{g: g, ex: env.ex, vars: map[string]Val{}, st: env.st, old: env.old, pkgPath: p.Pkg}
	if p.Pkg == "" {
		penv.pkgPath = env.pkgPath
	}
	var argVals []Val
	for i, b := range p.Params {
		gt := penv.resolveType(b.Type)
		v := env.tr(args[i])
		if !gt.Loc && gt.Set == nil {
			v = env.adapt(v, gt)
			if _, isSt := gt.T.Underlying().(*types.Struct); isSt {
				v = env.value(v)
			}
		}
		if v.S == "nil" {
			v = Val{g.zero(gt.T), gt}
		}
		argVals = append(argVals, Val{v.S, gt})
		penv.vars[b.Name] = Val{v.S, gt}
	}
	rt := tBool
	if p.Result != nil {
		rt = penv.resolveType(*p.Result)
	}
	if p.Body == nil {
		// uninterpreted spec function
		fn := "|spec:" + p.Name + "|"
		if !g.declared["fn:"+fn] {
			g.declared["fn:"+fn] = true
			var ss []string
			for _, a := range argVals {
				ss = append(ss, g.sortOfG(a.G))
			}
			g.decls = append(g.decls, fmt.Sprintf("(declare-fun %s (%s) %s)", fn, strings.Join(ss, " "), g.sortOfG(rt)))
		}
		if len(argVals) == 0 {
			return Val{fn, rt}
		}
		var as []string
		for _, a := range argVals {
			as = append(as, a.S)
		}
		return Val{fmt.Sprintf("(%s %s)", fn, strings.Join(as, " ")), rt}
	}
	// inline the body (preds are macros over the current state)
	v := penv.tr(p.Body.E)
	return Val{v.S, rt}
}
