package main

// Gen: one SMT context (one function under contract, or one lemma). Holds declarations,
// the ordered list of facts (definitions and guarded assumptions) and the obligations.

import (
	"fmt"
	"go/constant"
	"go/types"
	"math/big"
	"sort"
	"strings"
)

type GType struct {
	T   types.Type // Go type, nil for pure ghost types
	Set *GType     // set[Elem]
	Loc bool       // term is a Ref to a struct of type T living in the heap
	Unt bool       // untyped integer constant
	Math bool      // mathematical integer (spec only)
	Tuple []GType  // tuple of results of a pure function (S holds the components joined by \x00)
}

type Val struct {
	S string
	G GType
}

type Fact struct {
	Text string
}

type Obligation struct {
	Name   string
	Props  []string
	Func   string
	Kind   string
	Label  string
	Goal   string
	PC     string
	NFacts int
	Expect string // "unsat" (default: goal must be valid) or "sat" (canary / cover)
	Src    string // source clause
	Where  string // file:line of clause
	g      *Gen
	// results
	Result  string
	Solver  string
	Secs    float64
	Model   string
	SMTSize int
	Note    string
	Confirmed string // second solver that confirmed unsat (thorough tier)
}

type structInfo struct {
	sort   string
	st     *types.Struct
	name   string // mangled type name
	fields []string
}

type Gen struct {
	P        *Program
	mode     string // "int" | "bv"
	pkgPath  string
	decls    []string
	declared map[string]bool
	facts    []Fact
	nfresh   int
	structs  map[string]*structInfo // by mangled name
	comps    map[string]string      // base comp name -> sort
	compTy   map[string]compType
	compOrd  []string
	strlits  map[string]string
	obls     []*Obligation
	warn     []string
	pure     map[string]*pureDef
	pureOrd  []string
	needStr  bool
	typeTags map[string]int
	assumptions map[string]bool // textual assumptions for evidence
	overflow bool
	curFunc  string
	axioms   []string
	noAssume map[string]bool // obligations (by name) that must not be assumed after being stated (known findings)
}

func newGen(P *Program, mode, pkgPath string) *Gen {
	if mode == "" {
		mode = "int"
	}
	g := &Gen{P: P, mode: mode, pkgPath: pkgPath, declared: map[string]bool{}, structs: map[string]*structInfo{},
		comps: map[string]string{}, compTy: map[string]compType{}, strlits: map[string]string{}, pure: map[string]*pureDef{}, typeTags: map[string]int{},
		assumptions: map[string]bool{}}
	g.prelude()
	return g
}

func (g *Gen) prelude() {
	g.decl("sort:Str", "(declare-sort Str 0)")
	g.decl("dt:Slice", "(declare-datatypes ((Slice 0)) (((mk-slice (s.arr Int) (s.off Int) (s.len Int) (s.cap Int)))))")
	g.decl("dt:Iface", "(declare-datatypes ((Iface 0)) (((mk-iface (i.tag Int) (i.val Int)))))")
	g.decl("fn:sl.ix", "(declare-fun sl.ix (Slice Int) Int)")
	g.decl("ax:sl.ix", "(assert (forall ((s Slice) (i Int)) (! (= (sl.ix s i) (+ (s.off s) i)) :pattern ((sl.ix s i)))))")
	g.decl("fn:st.len", "(declare-fun st.len (Str) Int)")
	g.decl("c:st.empty", "(declare-const st.empty Str)")
	g.decl("ax:st.len", "(assert (forall ((s Str)) (! (>= (st.len s) 0) :pattern ((st.len s)))))")
	g.decl("ax:st.empty", "(assert (= (st.len st.empty) 0))")
	g.decl("ax:st.empty2", "(assert (forall ((s Str)) (! (=> (= (st.len s) 0) (= s st.empty)) :pattern ((st.len s)))))")
}

func (g *Gen) decl(key, text string) {
	if g.declared[key] {
		return
	}
	g.declared[key] = true
	g.decls = append(g.decls, text)
}

func (g *Gen) fresh(prefix string) string {
	g.nfresh++
	return fmt.Sprintf("|%s!%d|", prefix, g.nfresh)
}

func (g *Gen) freshConst(prefix, sort string) string {
	n := g.fresh(prefix)
	g.decls = append(g.decls, fmt.Sprintf("(declare-const %s %s)", n, sort))
	return n
}

func (g *Gen) addFact(text string) {
	g.facts = append(g.facts, Fact{text})
}

func (g *Gen) assume(pc, text string) {
	if pc == "" || pc == "true" {
		g.addFact(text)
	} else {
		g.addFact(fmt.Sprintf("(=> %s %s)", pc, text))
	}
}

func (g *Gen) warnf(f string, a ...any) {
	g.warn = append(g.warn, fmt.Sprintf(f, a...))
}

func (g *Gen) note(s string) { g.assumptions[s] = true }

// ---------- sorts ----------

func intInfo(t types.Type) (bits int, signed bool, ok bool) {
	b, isb := t.Underlying().(*types.Basic)
	if !isb {
		return 0, false, false
	}
	switch b.Kind() {
	case types.Int, types.Int64, types.UntypedInt, types.UntypedRune:
		return 64, true, true
	case types.Int32:
		return 32, true, true
	case types.Int16:
		return 16, true, true
	case types.Int8:
		return 8, true, true
	case types.Uint, types.Uint64, types.Uintptr:
		return 64, false, true
	case types.Uint32:
		return 32, false, true
	case types.Uint16:
		return 16, false, true
	case types.Uint8:
		return 8, false, true
	}
	return 0, false, false
}

// unaliasDeep replaces type aliases (type LogEntry = channels.LogEntry) by their targets, also under
// pointers/slices/maps, so that an alias and its target share heap components and type tags.
func unaliasDeep(t types.Type) types.Type {
	t = types.Unalias(t)
	switch u := t.(type) {
	case *types.Pointer:
		if e := unaliasDeep(u.Elem()); e != u.Elem() {
			return types.NewPointer(e)
		}
	case *types.Slice:
		if e := unaliasDeep(u.Elem()); e != u.Elem() {
			return types.NewSlice(e)
		}
	case *types.Array:
		if e := unaliasDeep(u.Elem()); e != u.Elem() {
			return types.NewArray(e, u.Len())
		}
	case *types.Map:
		k, e := unaliasDeep(u.Key()), unaliasDeep(u.Elem())
		if k != u.Key() || e != u.Elem() {
			return types.NewMap(k, e)
		}
	}
	return t
}

func mangleType(t types.Type) string {
	t = unaliasDeep(t)
	s := types.TypeString(t, func(p *types.Package) string {
		path := p.Path()
		return strings.TrimPrefix(path, modPath+"/")
	})
	s = strings.ReplaceAll(s, "|", "!")
	s = strings.ReplaceAll(s, "\\", "!")
	s = strings.ReplaceAll(s, "\n", " ")
	s = strings.ReplaceAll(s, "\"", "'")
	if len(s) > 120 {
		s = s[:100] + fmt.Sprintf("..#%x", hashStr(s))
	}
	return s
}

func hashStr(s string) uint32 {
	var h uint32 = 2166136261
	for i := 0; i < len(s); i++ {
		h ^= uint32(s[i])
		h *= 16777619
	}
	return h
}

func (g *Gen) intSort(bits int) string {
	if g.mode == "bv" {
		return fmt.Sprintf("(_ BitVec %d)", bits)
	}
	return "Int"
}

func (g *Gen) sortOf(t types.Type) string {
	switch u := t.Underlying().(type) {
	case *types.Basic:
		if u.Kind() == types.Bool || u.Kind() == types.UntypedBool {
			return "Bool"
		}
		if bits, _, ok := intInfo(u); ok {
			return g.intSort(bits)
		}
		if u.Kind() == types.String || u.Kind() == types.UntypedString {
			return "Str"
		}
		if u.Info()&types.IsFloat != 0 || u.Info()&types.IsComplex != 0 {
			return "Real"
		}
		if u.Kind() == types.UnsafePointer || u.Kind() == types.UntypedNil {
			return "Int"
		}
		return "Int"
	case *types.Pointer, *types.Map, *types.Chan, *types.Signature:
		return "Int"
	case *types.Slice:
		return "Slice"
	case *types.Interface:
		return "Iface"
	case *types.Struct:
		return g.structSort(t).sort
	case *types.Array:
		return fmt.Sprintf("(Array Int %s)", g.sortOf(u.Elem()))
	case *types.Tuple:
		return "Int"
	case *types.TypeParam:
		return "Int"
	}
	return "Int"
}

func (g *Gen) structSort(t types.Type) *structInfo {
	name := mangleType(t)
	if si, ok := g.structs[name]; ok {
		return si
	}
	st := t.Underlying().(*types.Struct)
	si := &structInfo{sort: "|S:" + name + "|", st: st, name: name}
	g.structs[name] = si
	var fs []string
	if st.NumFields() == 0 {
		g.decls = append(g.decls, fmt.Sprintf("(declare-datatypes ((%s 0)) (((|mk:%s|))))", si.sort, name))
		return si
	}
	for i := 0; i < st.NumFields(); i++ {
		f := st.Field(i)
		fname := f.Name()
		if fname == "_" {
			fname = fmt.Sprintf("_%d", i) // blank fields: selector names must be unique (cvc5 rejects duplicates)
		}
		fs = append(fs, fmt.Sprintf("(|%s.%s| %s)", name, fname, g.sortOf(f.Type())))
		si.fields = append(si.fields, fname)
	}
	g.decls = append(g.decls, fmt.Sprintf("(declare-datatypes ((%s 0)) (((|mk:%s| %s))))", si.sort, name, strings.Join(fs, " ")))
	return si
}

func (g *Gen) fieldSel(t types.Type, i int, v string) string {
	si := g.structSort(t)
	return fmt.Sprintf("(|%s.%s| %s)", si.name, si.fields[i], v)
}

func (g *Gen) mkStruct(t types.Type, vals []string) string {
	si := g.structSort(t)
	if len(vals) == 0 {
		return "|mk:" + si.name + "|"
	}
	return fmt.Sprintf("(|mk:%s| %s)", si.name, strings.Join(vals, " "))
}

func (g *Gen) updField(t types.Type, i int, v, nv string) string {
	si := g.structSort(t)
	var vals []string
	for j := range si.fields {
		if j == i {
			vals = append(vals, nv)
		} else {
			vals = append(vals, g.fieldSel(t, j, v))
		}
	}
	return g.mkStruct(t, vals)
}

func (g *Gen) zero(t types.Type) string {
	switch u := t.Underlying().(type) {
	case *types.Basic:
		if u.Kind() == types.Bool || u.Kind() == types.UntypedBool {
			return "false"
		}
		if bits, _, ok := intInfo(u); ok {
			return g.intLit(big.NewInt(0), bits)
		}
		if u.Kind() == types.String || u.Kind() == types.UntypedString {
			return "st.empty"
		}
		if u.Info()&types.IsFloat != 0 {
			return "0.0"
		}
		return "0"
	case *types.Pointer, *types.Map, *types.Chan, *types.Signature:
		return "0"
	case *types.Slice:
		return "(mk-slice 0 0 0 0)"
	case *types.Interface:
		return "(mk-iface 0 0)"
	case *types.Struct:
		var vals []string
		for i := 0; i < u.NumFields(); i++ {
			vals = append(vals, g.zero(u.Field(i).Type()))
		}
		return g.mkStruct(t, vals)
	case *types.Array:
		return g.constArray("Int", g.sortOf(u.Elem()), g.zero(u.Elem()))
	}
	return "0"
}

// constArray: constant array; cvc5 accepts only values as the element of `as const`, so for element
// terms that mention declared constants (the empty abstract string) a named array with an axiom is used.
func (g *Gen) constArray(idxSort, elemSort, elem string) string {
	if !strings.Contains(elem, "st.empty") {
		return fmt.Sprintf("((as const (Array %s %s)) %s)", idxSort, elemSort, elem)
	}
	name := fmt.Sprintf("|zarr:%s:%s:%x|", strings.ReplaceAll(idxSort, "|", ""), strings.ReplaceAll(elemSort, "|", ""), hashStr(elem))
	if !g.declared[name] {
		g.declared[name] = true
		g.decls = append(g.decls, fmt.Sprintf("(declare-const %s (Array %s %s))", name, idxSort, elemSort),
			fmt.Sprintf("(assert (forall ((i %s)) (! (= (select %s i) %s) :pattern ((select %s i)))))", idxSort, name, elem, name))
	}
	return name
}

func (g *Gen) intLit(v *big.Int, bits int) string {
	if g.mode == "bv" {
		m := new(big.Int).Lsh(big.NewInt(1), uint(bits))
		x := new(big.Int).Mod(v, m)
		return fmt.Sprintf("(_ bv%s %d)", x.String(), bits)
	}
	if v.Sign() < 0 {
		return fmt.Sprintf("(- %s)", new(big.Int).Neg(v).String())
	}
	return v.String()
}

func pow2(n int) *big.Int { return new(big.Int).Lsh(big.NewInt(1), uint(n)) }

// rangeFact: in int mode, the machine range of an integer-typed term.
func (g *Gen) rangeFact(t types.Type, term string) string {
	if g.mode != "int" {
		if _, isIf := t.Underlying().(*types.Interface); isIf {
			return fmt.Sprintf("(=> (= (i.tag %s) 0) (= (i.val %s) 0))", term, term)
		}
		return ""
	}
	bits, signed, ok := intInfo(t)
	if !ok {
		if _, isIf := t.Underlying().(*types.Interface); isIf {
			return fmt.Sprintf("(=> (= (i.tag %s) 0) (= (i.val %s) 0))", term, term)
		}
		if _, isSl := t.Underlying().(*types.Slice); isSl {
			return fmt.Sprintf("(and (>= (s.len %s) 0) (>= (s.off %s) 0) (>= (s.cap %s) (s.len %s)) (=> (= (s.arr %s) 0) (and (= (s.len %s) 0) (= (s.cap %s) 0) (= (s.off %s) 0))))", term, term, term, term, term, term, term, term)
		}
		if st, isSt := t.Underlying().(*types.Struct); isSt {
			var parts []string
			for i := 0; i < st.NumFields(); i++ {
				if f := g.rangeFact(st.Field(i).Type(), g.fieldSel(t, i, term)); f != "" {
					parts = append(parts, f)
				}
			}
			if len(parts) == 0 {
				return ""
			}
			if len(parts) == 1 {
				return parts[0]
			}
			return "(and " + strings.Join(parts, " ") + ")"
		}
		return ""
	}
	if signed {
		return fmt.Sprintf("(and (>= %s (- %s)) (< %s %s))", term, pow2(bits-1).String(), term, pow2(bits-1).String())
	}
	return fmt.Sprintf("(and (>= %s 0) (< %s %s))", term, term, pow2(bits).String())
}

// ---------- string literals ----------

func (g *Gen) strLit(s string) string {
	if s == "" {
		return "st.empty"
	}
	if n, ok := g.strlits[s]; ok {
		return n
	}
	n := fmt.Sprintf("|str:%d:%s|", len(g.strlits), sanitizeSym(s))
	g.strlits[s] = n
	g.decls = append(g.decls, fmt.Sprintf("(declare-const %s Str)", n))
	g.decls = append(g.decls, fmt.Sprintf("(assert (= (st.len %s) %d))", n, len(s)))
	// distinct from previous literals
	var others []string
	for o, on := range g.strlits {
		if o != s {
			others = append(others, on)
		}
	}
	sort.Strings(others)
	for _, on := range others {
		g.decls = append(g.decls, fmt.Sprintf("(assert (not (= %s %s)))", n, on))
	}
	return n
}

func sanitizeSym(s string) string {
	var b strings.Builder
	for _, r := range s {
		if r == '|' || r == '\\' || r < 32 || r > 126 {
			b.WriteByte('?')
		} else {
			b.WriteRune(r)
		}
		if b.Len() > 24 {
			break
		}
	}
	return b.String()
}

// ---------- constants ----------

func (g *Gen) constVal(t types.Type, c constant.Value) string {
	if c == nil {
		return g.zero(t)
	}
	switch c.Kind() {
	case constant.Bool:
		if constant.BoolVal(c) {
			return "true"
		}
		return "false"
	case constant.String:
		return g.strLit(constant.StringVal(c))
	case constant.Int:
		bits, _, ok := intInfo(t)
		if !ok {
			// maybe float typed const with int value
			if b, isb := t.Underlying().(*types.Basic); isb && b.Info()&types.IsFloat != 0 {
				return c.ExactString() + ".0"
			}
			bits = 64
		}
		v, _ := new(big.Int).SetString(c.ExactString(), 10)
		if v == nil {
			v = big.NewInt(0)
		}
		return g.intLit(v, bits)
	case constant.Float:
		f, _ := constant.Float64Val(c)
		s := fmt.Sprintf("%f", f)
		if f < 0 {
			return fmt.Sprintf("(- %s)", strings.TrimPrefix(s, "-"))
		}
		return s
	}
	return g.zero(t)
}

// ---------- heap components ----------

func (g *Gen) compDecl(base, sort string) {
	if _, ok := g.comps[base]; !ok {
		g.comps[base] = sort
		g.compOrd = append(g.compOrd, base)
	}
}

type compType struct {
	kind string // F | C | A | MV | MH
	t    types.Type
	key  types.Type
}

// allocFact: every reference contained in a value of type t is nil or allocated (w.r.t. allocSym).
func (g *Gen) allocFact(t types.Type, term, allocSym string, depth int) string {
	if depth > 3 {
		return ""
	}
	switch u := t.Underlying().(type) {
	case *types.Pointer, *types.Map:
		return fmt.Sprintf("(or (= %s 0) (select %s %s))", term, allocSym, term)
	case *types.Slice:
		return fmt.Sprintf("(or (= (s.arr %s) 0) (select %s (s.arr %s)))", term, allocSym, term)
	case *types.Struct:
		var parts []string
		for i := 0; i < u.NumFields(); i++ {
			if f := g.allocFact(u.Field(i).Type(), g.fieldSel(t, i, term), allocSym, depth+1); f != "" {
				parts = append(parts, f)
			}
		}
		if len(parts) == 0 {
			return ""
		}
		if len(parts) == 1 {
			return parts[0]
		}
		return "(and " + strings.Join(parts, " ") + ")"
	}
	return ""
}

func andFacts(a, b string) string {
	if a == "" {
		return b
	}
	if b == "" {
		return a
	}
	return "(and " + a + " " + b + ")"
}

// typingAxiom: heap well-typedness for an otherwise unconstrained component symbol: every value
// stored in a typed location is within the machine range of its type (true of every Go heap).
func (g *Gen) typingAxiom(base, sym, allocSym string) string {
	ct, ok := g.compTy[base]
	if !ok {
		return ""
	}
	tf := func(t types.Type, term string) string {
		f := g.rangeFact(t, term)
		if allocSym != "" && base != "alloc" {
			f = andFacts(f, g.allocFact(t, term, allocSym, 0))
		}
		return f
	}
	switch ct.kind {
	case "F", "C":
		if rf := tf(ct.t, fmt.Sprintf("(select %s r)", sym)); rf != "" {
			return fmt.Sprintf("(assert (forall ((r Int)) (! %s :pattern ((select %s r)))))", rf, sym)
		}
	case "A":
		if rf := tf(ct.t, fmt.Sprintf("(select (select %s r) i)", sym)); rf != "" {
			return fmt.Sprintf("(assert (forall ((r Int) (i Int)) (! %s :pattern ((select (select %s r) i)))))", rf, sym)
		}
	case "MV":
		if rf := tf(ct.t, fmt.Sprintf("(select (select %s r) k)", sym)); rf != "" {
			return fmt.Sprintf("(assert (forall ((r Int) (k %s)) (! %s :pattern ((select (select %s r) k)))))", g.sortOf(ct.key), rf, sym)
		}
	case "MH":
		if rf := g.rangeFact(ct.key, "k"); rf != "" {
			return fmt.Sprintf("(assert (forall ((r Int) (k %s)) (! (=> (select (select %s r) k) %s) :pattern ((select (select %s r) k)))))", g.sortOf(ct.key), sym, rf, sym)
		}
	}
	return ""
}

// versioned symbol for a component
func (g *Gen) compSym(base string, ver string) string {
	sym := fmt.Sprintf("|%s@%s|", base, ver)
	key := "comp:" + sym
	if !g.declared[key] {
		g.declared[key] = true
		g.decls = append(g.decls, fmt.Sprintf("(declare-const %s %s)", sym, g.comps[base]))
		allocSym := ""
		if base != "alloc" {
			g.allocComp()
			allocSym = g.compSym("alloc", ver)
		}
		if ax := g.typingAxiom(base, sym, allocSym); ax != "" {
			g.decls = append(g.decls, ax)
		}
	}
	return sym
}

func (g *Gen) fieldComp(structT types.Type, i int) string {
	st := structT.Underlying().(*types.Struct)
	f := st.Field(i)
	base := "F:" + mangleType(structT) + "." + f.Name()
	g.compDecl(base, fmt.Sprintf("(Array Int %s)", g.sortOf(f.Type())))
	g.compTy[base] = compType{kind: "F", t: f.Type()}
	return base
}

func (g *Gen) cellComp(t types.Type) string {
	base := "C:" + mangleType(t)
	g.compDecl(base, fmt.Sprintf("(Array Int %s)", g.sortOf(t)))
	g.compTy[base] = compType{kind: "C", t: t}
	return base
}

func (g *Gen) arrComp(elem types.Type) string {
	base := "A:" + mangleType(elem)
	g.compDecl(base, fmt.Sprintf("(Array Int (Array Int %s))", g.sortOf(elem)))
	g.compTy[base] = compType{kind: "A", t: elem}
	return base
}

func (g *Gen) mapComps(mt *types.Map) (has, val, ln string) {
	k := mangleType(mt.Key()) + "=>" + mangleType(mt.Elem())
	has, val, ln = "MH:"+k, "MV:"+k, "ML:"+k
	ks, vs := g.sortOf(mt.Key()), g.sortOf(mt.Elem())
	g.compDecl(has, fmt.Sprintf("(Array Int (Array %s Bool))", ks))
	g.compDecl(val, fmt.Sprintf("(Array Int (Array %s %s))", ks, vs))
	g.compDecl(ln, "(Array Int Int)")
	g.compTy[has] = compType{kind: "MH", key: mt.Key()}
	g.compTy[val] = compType{kind: "MV", t: mt.Elem(), key: mt.Key()}
	return
}

func (g *Gen) ghostComp(pkgPath, recv, name string, sortS string) string {
	base := "G:" + strings.TrimPrefix(pkgPath, modPath+"/") + "." + recv + "." + name
	g.compDecl(base, fmt.Sprintf("(Array Int %s)", sortS))
	return base
}

func (g *Gen) allocComp() string {
	g.compDecl("alloc", "(Array Int Bool)")
	return "alloc"
}

// sub-object reference for a struct-typed field stored by value inside a heap struct
func (g *Gen) subRef(structT types.Type, i int, base string) string {
	st := structT.Underlying().(*types.Struct)
	fn := fmt.Sprintf("|sub:%s.%s|", mangleType(structT), st.Field(i).Name())
	inv := fmt.Sprintf("|own:%s.%s|", mangleType(structT), st.Field(i).Name())
	if !g.declared["fn:"+fn] {
		g.declared["fn:"+fn] = true
		g.decls = append(g.decls, fmt.Sprintf("(declare-fun %s (Int) Int)", fn))
		g.decls = append(g.decls, fmt.Sprintf("(declare-fun %s (Int) Int)", inv))
		g.decl("fn:refkind", "(declare-fun refkind (Int) Int)")
		g.typeTags["sub:"+fn] = len(g.typeTags) + 1
		// injectivity + non-nil + kind tag
		g.decls = append(g.decls, fmt.Sprintf("(assert (forall ((r Int)) (! (and (= (%s (%s r)) r) (= (refkind (%s r)) %d) (=> (not (= r 0)) (not (= (%s r) 0)))) :pattern ((%s r)))))", inv, fn, fn, g.typeTags["sub:"+fn], fn, fn))
	}
	return fmt.Sprintf("(%s %s)", fn, base)
}

// ---------- State ----------

type State struct {
	epoch  string
	m      map[string]string // comp base -> symbol/term
	locals map[string]string // local alloc id -> value term
	// join of states with different epochs: components not (yet) in m are defined lazily as the ite of
	// the predecessors' values, so that a component first touched after the join is still related to them
	joinOf  []*State
	joinPCs []string
}

func (g *Gen) entryState() *State {
	return &State{epoch: "0", m: map[string]string{}, locals: map[string]string{}}
}

func (s *State) clone() *State {
	n := &State{epoch: s.epoch, m: make(map[string]string, len(s.m)), locals: make(map[string]string, len(s.locals)), joinOf: s.joinOf, joinPCs: s.joinPCs}
	for k, v := range s.m {
		n.m[k] = v
	}
	for k, v := range s.locals {
		n.locals[k] = v
	}
	return n
}

func (g *Gen) get(s *State, base string) string {
	if t, ok := s.m[base]; ok {
		return t
	}
	if len(s.joinOf) > 0 {
		first := g.get(s.joinOf[0], base)
		same := true
		for _, p := range s.joinOf[1:] {
			if g.get(p, base) != first {
				same = false
			}
		}
		if same {
			s.m[base] = first
			return first
		}
		term := g.get(s.joinOf[len(s.joinOf)-1], base)
		for i := len(s.joinOf) - 2; i >= 0; i-- {
			term = fmt.Sprintf("(ite %s %s %s)", s.joinPCs[i], g.get(s.joinOf[i], base), term)
		}
		sym := g.fresh(base)
		g.decls = append(g.decls, fmt.Sprintf("(declare-const %s %s)", sym, g.comps[base]))
		// definitional and about earlier program points: safe to state as a global fact
		g.facts = append(g.facts, Fact{}) // placeholder keeps indices monotone
		g.facts[len(g.facts)-1] = Fact{fmt.Sprintf("(= %s %s)", sym, term)}
		s.m[base] = sym
		return sym
	}
	return g.compSym(base, "e"+s.epoch)
}

func (g *Gen) set(s *State, base, term string) {
	// name the new version to keep terms small
	sym := g.fresh(base)
	g.decls = append(g.decls, fmt.Sprintf("(declare-const %s %s)", sym, g.comps[base]))
	g.addFact(fmt.Sprintf("(= %s %s)", sym, term))
	s.m[base] = sym
}

func (g *Gen) havocComp(s *State, base string) string {
	sym := g.fresh(base)
	g.decls = append(g.decls, fmt.Sprintf("(declare-const %s %s)", sym, g.comps[base]))
	allocSym := ""
	if base != "alloc" {
		g.allocComp()
		allocSym = g.get(s, "alloc")
	}
	if ax := g.typingAxiom(base, sym, allocSym); ax != "" {
		g.decls = append(g.decls, ax)
	}
	s.m[base] = sym
	return sym
}

func (g *Gen) havocAll(s *State) {
	for k := range s.m {
		delete(s.m, k)
	}
	s.joinOf, s.joinPCs = nil, nil
	g.nfresh++
	s.epoch = fmt.Sprintf("h%d", g.nfresh)
}

// render SMT for an obligation
func (g *Gen) render(o *Obligation, produceModels bool) string {
	var b strings.Builder
	if produceModels {
		b.WriteString("(set-option :produce-models true)\n")
	}
	b.WriteString("(set-logic ALL)\n")
	for _, d := range g.decls {
		b.WriteString(d)
		b.WriteByte('\n')
	}
	for _, name := range g.pureOrd {
		b.WriteString(g.pure[name].text)
		b.WriteByte('\n')
	}
	for _, a := range g.axioms {
		b.WriteString("(assert ")
		b.WriteString(a)
		b.WriteString(")\n")
	}
	n := o.NFacts
	if n > len(g.facts) {
		n = len(g.facts)
	}
	for _, f := range g.facts[:n] {
		b.WriteString("(assert ")
		b.WriteString(f.Text)
		b.WriteString(")\n")
	}
	if o.PC != "" && o.PC != "true" {
		fmt.Fprintf(&b, "(assert %s)\n", o.PC)
	}
	if o.Expect == "sat" {
		fmt.Fprintf(&b, "(assert %s)\n", o.Goal)
	} else {
		fmt.Fprintf(&b, "(assert (not %s))\n", o.Goal)
	}
	b.WriteString("(check-sat)\n")
	return b.String()
}
