package main

// Mechanical read-only analysis: a function that (transitively) performs no store to memory that
// existed before the call, no map update/delete on pre-existing maps, no channel/goroutine
// operation and no call to an unknown function cannot change the heap the contracts talk about.
// Calls to such functions are treated as having no heap effect (their results stay arbitrary).

import (
	"go/token"
	"go/types"

	"golang.org/x/tools/go/ssa"
)

func (P *Program) readOnly(fn *ssa.Function) bool {
	if P.roMemo == nil {
		P.roMemo = map[*ssa.Function]int{}
	}
	switch P.roMemo[fn] {
	case 1:
		return true
	case 2:
		return false
	case 3:
		return false // cycle: be conservative
	}
	if fn.Blocks == nil {
		P.roMemo[fn] = 2
		return false
	}
	P.roMemo[fn] = 3
	ok := P.readOnlyBody(fn)
	if ok {
		P.roMemo[fn] = 1
	} else {
		P.roMemo[fn] = 2
	}
	return ok
}

// freshRoot: the address/value derives from an allocation made inside fn (or from a callee result that the
// callee's contract declares fresh). Cycles through loop phis are resolved optimistically (coinductively):
// a phi is fresh when all its non-cyclic inputs are.
var freshCalleeHook func(c *ssa.CallCommon) bool

func freshRoot(v ssa.Value, depth int) bool {
	return freshRootV(v, map[ssa.Value]bool{})
}

func freshRootV(v ssa.Value, seen map[ssa.Value]bool) bool {
	if seen[v] {
		return true
	}
	seen[v] = true
	switch x := v.(type) {
	case *ssa.Alloc, *ssa.MakeMap, *ssa.MakeSlice:
		return true
	case *ssa.FieldAddr:
		return freshRootV(x.X, seen)
	case *ssa.IndexAddr:
		return freshRootV(x.X, seen)
	case *ssa.Slice:
		return freshRootV(x.X, seen)
	case *ssa.ChangeType:
		return freshRootV(x.X, seen)
	case *ssa.Const:
		return x.IsNil()
	case *ssa.Call:
		if b, ok := x.Call.Value.(*ssa.Builtin); ok && b.Name() == "append" {
			return freshRootV(x.Call.Args[0], seen)
		}
		if freshCalleeHook != nil && freshCalleeHook(&x.Call) {
			return true
		}
	case *ssa.Phi:
		for _, e := range x.Edges {
			if !freshRootV(e, seen) {
				return false
			}
		}
		return true
	}
	return false
}

func (P *Program) readOnlyBody(fn *ssa.Function) bool {
	for _, af := range fn.AnonFuncs {
		_ = af
	}
	for _, b := range fn.Blocks {
		for _, in := range b.Instrs {
			switch x := in.(type) {
			case *ssa.Store:
				if !freshRoot(x.Addr, 0) {
					return false
				}
			case *ssa.MapUpdate:
				if !freshRoot(x.Map, 0) {
					return false
				}
			case *ssa.Go, *ssa.Send, *ssa.Select, *ssa.Defer, *ssa.Panic:
				if _, isPanic := in.(*ssa.Panic); isPanic {
					continue
				}
				return false
			case *ssa.UnOp:
				if x.Op == token.ARROW {
					return false
				}
			case *ssa.MakeClosure:
				if f, ok := x.Fn.(*ssa.Function); !ok || !P.readOnly(f) {
					return false
				}
			case ssa.CallInstruction:
				c := x.Common()
				if c.IsInvoke() {
					if !isInert(methodKey(c.Method)) {
						return false
					}
					continue
				}
				switch callee := c.Value.(type) {
				case *ssa.Builtin:
					switch callee.Name() {
					case "append":
						if !freshRoot(c.Args[0], 0) {
							return false
						}
					case "copy":
						if !freshRoot(c.Args[0], 0) {
							return false
						}
					case "delete", "close", "clear":
						if !freshRoot(c.Args[0], 0) {
							return false
						}
					}
				case *ssa.Function:
					k := funcKey(callee)
					if con := P.Contracts[k]; con != nil && (con.Inert || con.Pure) {
						continue
					}
					if isInert(k) {
						continue
					}
					if !P.readOnly(callee) {
						return false
					}
				case *ssa.MakeClosure:
					if f, ok := callee.Fn.(*ssa.Function); !ok || !P.readOnly(f) {
						return false
					}
				default:
					return false
				}
			}
		}
	}
	_ = types.Typ
	return true
}
