package main

import (
	"fmt"
	"os"
	"go/types"
	"sort"
	"strings"

	"golang.org/x/tools/go/ssa"
)

// verifyFunc generates the obligations of one function under contract.
func verifyFunc(P *Program, con *Contract) (g *Gen, err error) {
	fn := P.Funcs[con.Key]
	if fn == nil {
		return nil, fmt.Errorf("%s:%d: contract for %s does not bind to any function in the current tree", con.File, con.Line, shortKey(con.Key))
	}
	if fn.Blocks == nil {
		return nil, fmt.Errorf("%s has no body", con.Key)
	}
	g = newGen(P, con.Mode, con.Pkg)
	g.noAssume = P.NoAssume
	g.curFunc = shortKey(con.Key)
	ex := newExec(g, fn, con)
	defer func() {
		if r := recover(); r != nil {
			switch x := r.(type) {
			case unsupported:
				err = fmt.Errorf("%s: outside supported subset: %s", shortKey(con.Key), x.msg)
			case specErr:
				err = fmt.Errorf("%s: contract error: %s", shortKey(con.Key), x.msg)
			default:
				panic(r)
			}
		}
	}()
	ex.runVC()
	g.includeAxioms(ex)
	return g, nil
}

// specRefs collects the names of preds/spec functions referenced by an expression.
func specRefs(e Expr, out map[string]bool) {
	switch x := e.(type) {
	case *ECall:
		if id, ok := x.Fun.(*EIdent); ok {
			out[id.Name] = true
		} else {
			specRefs(x.Fun, out)
		}
		for _, a := range x.Args {
			specRefs(a, out)
		}
	case *EUnary:
		specRefs(x.X, out)
	case *EDeref:
		specRefs(x.X, out)
	case *EBinary:
		specRefs(x.X, out)
		specRefs(x.Y, out)
	case *ESel:
		specRefs(x.X, out)
	case *EIndex:
		specRefs(x.X, out)
		specRefs(x.I, out)
	case *EOld:
		specRefs(x.X, out)
	case *EQuant:
		specRefs(x.Body, out)
	case *ELit:
		for _, v := range x.Vals {
			specRefs(v, out)
		}
	}
}

// includeAxioms adds every trusted axiom that mentions a spec function declared in this context.
func (g *Gen) includeAxioms(ex *Exec) {
	done := map[string]bool{}
	for changed := true; changed; {
		changed = false
		for _, ax := range g.P.Axioms {
			if done[ax.Name] || ax.Body == nil {
				continue
			}
			refs := map[string]bool{}
			specRefs(ax.Body.E, refs)
			hit := false
			for r := range refs {
				if g.declared["fn:|spec:"+r+"|"] {
					hit = true
				}
			}
			if !hit {
				continue
			}
			done[ax.Name] = true
			changed = true
			env := &Env{g: g, ex: ex, vars: map[string]Val{}, st: g.entryState(), pkgPath: ax.Pkg}
			if env.pkgPath == "" {
				env.pkgPath = g.pkgPath
			}
			t, err := env.trBool(ax.Body.E)
			if err != nil {
				panic(specErr{fmt.Sprintf("axiom %s: %v", ax.Name, err)})
			}
			g.axioms = append(g.axioms, t)
			g.note("trusted axiom: " + ax.Name + ": " + ax.Body.Src)
		}
	}
}

func (ex *Exec) declareParams() {
	g := ex.g
	st := ex.entry
	for _, p := range ex.fn.Params {
		n := fmt.Sprintf("|p:%s|", p.Name())
		g.decls = append(g.decls, fmt.Sprintf("(declare-const %s %s)", n, g.sortOf(p.Type())))
		ex.vals[p] = n
		if rf := g.rangeFact(p.Type(), n); rf != "" {
			g.addFact(rf)
		}
		ex.assumeTypeAlloc(st, "true", p.Type(), n)
	}
	for _, fv := range ex.fn.FreeVars {
		n := fmt.Sprintf("|fv:%s|", fv.Name())
		g.decls = append(g.decls, fmt.Sprintf("(declare-const %s Int)", n))
		g.addFact(fmt.Sprintf("(not (= %s 0))", n))
		ex.vals[fv] = n
		ex.assumeAllocated(st, "true", n)
	}
}

func (ex *Exec) runVC() {
	g := ex.g
	fn := ex.fn
	con := ex.c
	ex.entry = g.entryState()
	ex.declareParams()
	loops, back := findLoops(fn)
	ex.loops = loops
	order := topoOrder(fn, back)

	ex.resetGhosts(ex.entry, con)
	// assume preconditions
	envPre := ex.funcEnv(ex.entry)
	envPre.fn = nil
	envPre = ex.withParams(envPre)
	for _, r := range con.Req {
		t, err := envPre.trBool(r.E)
		if err != nil {
			unsup("%s:%d: requires[%s]: %v", r.File, r.Line, r.Label, err)
		}
		g.addFact(t)
	}
	// vacuity guard: preconditions satisfiable
	cov := &Obligation{Name: g.curFunc + "/cover/requires", Func: g.curFunc, Kind: "cover", Label: "requires", Goal: "true", PC: "true", NFacts: len(g.facts), g: g, Expect: "sat", Props: con.Props}
	g.obls = append(g.obls, cov)

	pcOf := map[*ssa.BasicBlock]string{}
	outSt := map[*ssa.BasicBlock]*State{}
	edgePC := map[[2]int]string{}
	// per-loop data
	type loopRT struct {
		env     *Env
		phiVals map[*ssa.Phi]string
	}
	for _, b := range order {
		ex.curBlk = b
		var pc string
		var st *State
		li := loops[b]
		// incoming (non-back) edges
		type inEdge struct {
			pred *ssa.BasicBlock
			pc   string
			idx  int
		}
		var ins []inEdge
		for i, p := range b.Preds {
			if back[[2]int{p.Index, b.Index}] {
				continue
			}
			epc, ok := edgePC[[2]int{p.Index, b.Index}]
			if !ok {
				continue // unreachable predecessor (e.g. after panic)
			}
			ins = append(ins, inEdge{p, epc, i})
		}
		if b.Index == 0 {
			pc = "true"
			st = ex.entry.clone()
		} else {
			if len(ins) == 0 {
				continue // unreachable
			}
			var pcs []string
			for _, e := range ins {
				pcs = append(pcs, e.pc)
			}
			pcn := g.freshConst(fmt.Sprintf("pc.%d", b.Index), "Bool")
			if len(pcs) == 1 {
				g.addFact(fmt.Sprintf("(= %s %s)", pcn, pcs[0]))
			} else {
				g.addFact(fmt.Sprintf("(= %s (or %s))", pcn, strings.Join(pcs, " ")))
			}
			pc = pcn
			// merge states
			var sts []*State
			for _, e := range ins {
				sts = append(sts, outSt[e.pred])
			}
			st = ex.mergeStates(sts, pcs)
		}
		ex.pcCur = pc
		// phis: entry-merged values
		phiEntry := map[*ssa.Phi]string{}
		for _, in := range b.Instrs {
			phi, ok := in.(*ssa.Phi)
			if !ok {
				break
			}
			var term string
			for k := len(ins) - 1; k >= 0; k-- {
				v := ex.val(phi.Edges[ins[k].idx])
				if term == "" {
					term = v
				} else {
					term = fmt.Sprintf("(ite %s %s %s)", ins[k].pc, v, term)
				}
			}
			phiEntry[phi] = term
		}
		if li == nil {
			for phi, t := range phiEntry {
				ex.setVal(phi, t)
			}
		} else {
			ls := loopSpecFor(con, li.ord)
			// 1. invariant holds on entry
			if ls != nil {
				env := ex.loopEnv(st, b, phiEntry, li)
				for _, inv := range ls.Invs {
					t, err := env.trBool(inv.E)
					if err != nil {
						unsup("%s:%d: loop %d invariant[%s]: %v", inv.File, inv.Line, li.ord, inv.Label, err)
					}
					ex.addObl(fmt.Sprintf("inv-entry@loop%d", li.ord), inv.Label, t, pc, inv.Src, fmt.Sprintf("%s:%d", inv.File, inv.Line))
				}
			}
			// built-in invariant of range-over-slice loops: the hidden index starts at -1 and only grows
			for phi, t := range phiEntry {
				if phi.Comment == "rangeindex" && g.mode == "int" {
					ex.addObl(fmt.Sprintf("inv-entry@loop%d", li.ord), "auto-rangeindex-"+phi.Name(), fmt.Sprintf("(<= (- 1) %s)", t), pc, "range index >= -1 (built-in)", "")
				}
			}
			// 2. havoc loop targets
			comps, locals, all := ex.loopWrites(li)
			if all {
				g.note(fmt.Sprintf("loop %d of %s contains calls without frame: whole heap havocked at loop head", li.ord, g.curFunc))
				ex.havocEverything(st)
			} else {
				var cs []string
				for c := range comps {
					cs = append(cs, c)
				}
				sort.Strings(cs)
				// alloc first: the typing axioms of the other havocked components refer to the loop-head alloc set
				if comps["alloc"] {
					g.allocComp()
					before := g.get(st, "alloc")
					g.havocComp(st, "alloc")
					g.addFact(fmt.Sprintf("(forall ((r Int)) (! (=> (select %s r) (select %s r)) :pattern ((select %s r))))", before, g.get(st, "alloc"), before))
				}
				for _, c := range cs {
					if c == "alloc" {
						continue
					}
					g.havocComp(st, c)
				}
			}
			var lsn []string
			for l := range locals {
				lsn = append(lsn, l)
			}
			sort.Strings(lsn)
			for _, l := range lsn {
				if cur, ok := st.locals[l]; ok {
					srt := ex.localSort(l, cur)
					if srt != "" {
						st.locals[l] = g.freshConst(strings.Trim(l, "|")+".h", srt)
					}
				}
			}
			for phi := range phiEntry {
				n := g.freshConst(ex.fn.Name()+"."+phi.Name(), g.sortOf(phi.Type()))
				ex.vals[phi] = n
				if rf := g.rangeFact(phi.Type(), n); rf != "" {
					g.addFact(rf)
				}
				ex.assumeTypeAlloc(st, pc, phi.Type(), n)
			}
			for phi := range phiEntry {
				if phi.Comment == "rangeindex" && g.mode == "int" {
					g.assume(pc, fmt.Sprintf("(<= (- 1) %s)", ex.vals[phi]))
				}
			}
			// 3. assume invariant at arbitrary iteration
			if ls != nil {
				env := ex.loopEnv(st, b, nil, li)
				for _, inv := range ls.Invs {
					t, err := env.trBool(inv.E)
					if err != nil {
						unsup("%s:%d: loop %d invariant[%s]: %v", inv.File, inv.Line, li.ord, inv.Label, err)
					}
					g.assume(pc, t)
				}
			}
		}
		// instructions
		var term ssa.Instruction
		for _, in := range b.Instrs {
			switch in.(type) {
			case *ssa.Phi:
				continue
			case *ssa.If, *ssa.Jump, *ssa.Return, *ssa.Panic:
				term = in
				continue
			}
			ex.step(st, in)
		}
		pcOf[b] = pc
		outSt[b] = st
		// terminator
		switch t := term.(type) {
		case *ssa.If:
			c := ex.val(t.Cond)
			ex.emitEdge(b, b.Succs[0], fmt.Sprintf("(and %s %s)", pc, c), st, back, loops, edgePC)
			ex.emitEdge(b, b.Succs[1], fmt.Sprintf("(and %s (not %s))", pc, c), st, back, loops, edgePC)
		case *ssa.Jump:
			ex.emitEdge(b, b.Succs[0], pc, st, back, loops, edgePC)
		case *ssa.Return:
			var res []string
			for _, r := range t.Results {
				res = append(res, ex.val(r))
			}
			ex.rets = append(ex.rets, retInfo{pc: pc, results: res, st: st, blk: b})
		case *ssa.Panic:
			if ex.safety {
				ex.addObl("safety", fmt.Sprintf("no-panic@b%d", b.Index), "false", pc, "explicit panic unreachable", "")
			}
		}
	}
	ex.postconditions()
	if !ex.c.Trusted {
		ex.frameCheck()
	}
}

// frameIrrelevant: synchronisation primitives and statistics counters; no contract talks about them.
func frameIrrelevant(comp string) bool {
	for _, p := range []string{"F:internal/sync.", "F:sync.", "F:sync/atomic.", "F:base.AtomicInt", "F:base.AtomicBool", "F:base.Sgw", "F:internal/race", "C:sync/atomic.", "F:time.Time."} {
		if strings.HasPrefix(comp, p) {
			return true
		}
	}
	return false
}

// frameCheck: syntactic comparison of what the body may write (component granularity) with the contract's
// modifies clause. A gap means callers assume a frame that the body is not shown to respect. Reported as an
// assumption ("FRAME-GAP") in the evidence; with `frame on` in the contract it is an obligation.
func (ex *Exec) frameCheck() {
	con := ex.c
	g := ex.g
	if con.ModAll {
		return
	}
	all := map[*ssa.BasicBlock]bool{}
	for _, b := range ex.fn.Blocks {
		all[b] = true
	}
	written, _, any, unknown := ex.blockWrites(all, true)
	allowed, ok := ex.modComps(con)
	if !ok {
		g.note("FRAME-GAP " + g.curFunc + ": modifies clause not analysable")
		return
	}
	var gaps []string
	for c := range written {
		if c == "alloc" || frameIrrelevant(c) {
			continue
		}
		if !allowed[c] {
			gaps = append(gaps, c)
		}
	}
	sort.Strings(gaps)
	if any {
		sort.Strings(unknown)
		u := unknown
		if len(u) > 6 {
			u = append(u[:6:6], "...")
		}
		g.note("FRAME-GAP " + g.curFunc + ": calls with unknown effect (" + strings.Join(u, ", ") + ") while the contract claims a limited modifies clause")
	}
	if len(gaps) > 0 {
		g.note("FRAME-GAP " + g.curFunc + ": body may write " + strings.Join(gaps, ", ") + " not covered by its modifies clause")
	}
	if con.Frame {
		goal := "true"
		if len(gaps) > 0 || any {
			goal = "false"
		}
		g.obls = append(g.obls, &Obligation{Name: g.curFunc + "/frame/modifies-covers-writes", Func: g.curFunc, Kind: "frame", Label: "modifies-covers-writes",
			Goal: goal, PC: "true", NFacts: 0, g: g, Expect: "unsat", Props: con.Props, Src: "every component the body may write is listed in modifies: gaps " + strings.Join(gaps, ", ") + " " + strings.Join(unknown, ", ")})
	}
}

// loopSpecFor merges the clauses given for loop n with those given for every loop (`loop * ...`).
func loopSpecFor(c *Contract, n int) *LoopSpec {
	a, b := c.Loops[0], c.Loops[n]
	if a == nil {
		return b
	}
	if b == nil {
		return a
	}
	return &LoopSpec{Invs: append(append([]*Clause{}, a.Invs...), b.Invs...), Decreases: b.Decreases, Modifies: append(append([]Expr{}, a.Modifies...), b.Modifies...)}
}

// allocBefore: the alloc set at loop entry (remembered so that the loop-head alloc set is known to include it)
func allocBefore(ex *Exec, hdr *ssa.BasicBlock, st *State) string {
	if ex.allocAtEntry == nil {
		ex.allocAtEntry = map[*ssa.BasicBlock]string{}
	}
	if v, ok := ex.allocAtEntry[hdr]; ok {
		return v
	}
	v := ex.g.get(st, "alloc")
	ex.allocAtEntry[hdr] = v
	return v
}

func (ex *Exec) localSort(id string, cur string) string {
	// sort of a local state var: find alloc by name
	for a := range ex.localOK {
		if "|"+ex.fn.Name()+"."+a.Name()+"|" == id {
			return ex.g.sortOf(a.Type().(*types.Pointer).Elem())
		}
	}
	for _, ri := range ex.ranges {
		if ri.visited == id && ri.isMap {
			return fmt.Sprintf("(Array %s Bool)", ex.g.sortOf(ri.mt.Key()))
		}
	}
	return ""
}

func (ex *Exec) emitEdge(from, to *ssa.BasicBlock, pc string, st *State, back map[[2]int]bool, loops map[*ssa.BasicBlock]*loopInfo, edgePC map[[2]int]string) {
	g := ex.g
	key := [2]int{from.Index, to.Index}
	if back[key] {
		ex.backPCs = append(ex.backPCs, pc) // path conditions of back edges (used by `propagates` for calls inside loops)
		// invariant preserved
		li := loops[to]
		ls := loopSpecFor(ex.c, li.ord)
		for i, p := range to.Preds {
			if p != from {
				continue
			}
			for _, in := range to.Instrs {
				phi, ok := in.(*ssa.Phi)
				if !ok {
					break
				}
				if phi.Comment == "rangeindex" && g.mode == "int" {
					save := ex.pcCur
					ex.pcCur = pc
					ex.addObl(fmt.Sprintf("inv-keep@loop%d", li.ord), fmt.Sprintf("auto-rangeindex-%s@b%d", phi.Name(), from.Index), fmt.Sprintf("(<= (- 1) %s)", ex.val(phi.Edges[i])), pc, "range index >= -1 (built-in)", "")
					ex.pcCur = save
				}
			}
		}
		if ls == nil {
			return
		}
		// index of this edge in to.Preds
		phiVals := map[*ssa.Phi]string{}
		for i, p := range to.Preds {
			if p == from {
				for _, in := range to.Instrs {
					phi, ok := in.(*ssa.Phi)
					if !ok {
						break
					}
					phiVals[phi] = ex.val(phi.Edges[i])
				}
			}
		}
		save := ex.pcCur
		ex.pcCur = pc
		env := ex.loopEnv(st, to, phiVals, li)
		for _, inv := range ls.Invs {
			t, err := env.trBool(inv.E)
			if err != nil {
				unsup("%s:%d: loop %d invariant[%s]: %v", inv.File, inv.Line, li.ord, inv.Label, err)
			}
			lbl := inv.Label
			ex.addObl(fmt.Sprintf("inv-keep@loop%d", li.ord), fmt.Sprintf("%s@b%d", lbl, from.Index), t, pc, inv.Src, fmt.Sprintf("%s:%d", inv.File, inv.Line))
		}
		ex.pcCur = save
		return
	}
	n := g.freshConst(fmt.Sprintf("edge.%d.%d", from.Index, to.Index), "Bool")
	g.addFact(fmt.Sprintf("(= %s %s)", n, pc))
	if old, dup := edgePC[key]; dup {
		// two edges between same blocks (if c goto X else X)
		m := g.freshConst(fmt.Sprintf("edge.%d.%d", from.Index, to.Index), "Bool")
		g.addFact(fmt.Sprintf("(= %s (or %s %s))", m, old, n))
		n = m
	}
	edgePC[key] = n
}

func (ex *Exec) loopEnv(st *State, hdr *ssa.BasicBlock, phi map[*ssa.Phi]string, li *loopInfo) *Env {
	env := ex.funcEnv(st)
	env.hdr = hdr
	env.phi = phi
	env = ex.withParams(env)
	// #index, #visited
	vars := map[string]Val{}
	for _, in := range hdr.Instrs {
		p, ok := in.(*ssa.Phi)
		if !ok {
			break
		}
		if p.Comment == "rangeindex" {
			if o, ok := phi[p]; ok {
				vars["#index"] = Val{o, GType{T: p.Type()}}
			} else {
				vars["#index"] = Val{ex.val(p), GType{T: p.Type()}}
			}
		}
	}
	// #visited: keys already produced by the range-over-map loop whose `next` sits in this header;
	// #outer_visited: the same for the innermost ENCLOSING range-over-map loop (stable inside this loop).
	visitedOf := func(h *ssa.BasicBlock) (Val, bool) {
		for _, in := range h.Instrs {
			if nx, ok := in.(*ssa.Next); ok {
				if ri := ex.ranges[nx.Iter]; ri != nil && ri.isMap {
					kt := GType{T: ri.mt.Key()}
					if v, ok := st.locals[ri.visited]; ok {
						return Val{v, GType{Set: &kt}}, true
					}
				}
			}
		}
		return Val{}, false
	}
	// #visitedN / #indexN: visited set / hidden range index of loop N (N as in `loop N invariant`), usable in
	// the invariants of loop N itself and of every loop nested inside it.
	for _, l := range ex.loops {
		if l != li && !l.body[hdr] {
			continue
		}
		if v, ok := visitedOf(l.header); ok {
			vars[fmt.Sprintf("#visited%d", l.ord)] = v
		}
		for _, in := range l.header.Instrs {
			p, ok := in.(*ssa.Phi)
			if !ok {
				break
			}
			if p.Comment == "rangeindex" {
				if o, ok := phi[p]; ok && l == li {
					vars[fmt.Sprintf("#index%d", l.ord)] = Val{o, GType{T: p.Type()}}
				} else if v, ok := ex.vals[p]; ok {
					vars[fmt.Sprintf("#index%d", l.ord)] = Val{v, GType{T: p.Type()}}
				}
			}
		}
	}
	own, hasOwn := visitedOf(hdr)
	if hasOwn {
		vars["#visited"] = own
	}
	// enclosing loops, innermost first (smallest body containing this header)
	var best *loopInfo
	for _, l := range ex.loops {
		if l == li || !l.body[hdr] {
			continue
		}
		if _, ok := visitedOf(l.header); !ok {
			continue
		}
		if best == nil || len(l.body) < len(best.body) {
			best = l
		}
	}
	if best != nil {
		v, _ := visitedOf(best.header)
		vars["#outer_visited"] = v
		if !hasOwn {
			vars["#visited"] = v
		}
	}
	return env.with(vars)
}

func (ex *Exec) withParams(env *Env) *Env {
	vars := map[string]Val{}
	for _, p := range ex.fn.Params {
		vars[p.Name()] = Val{ex.val(p), GType{T: p.Type()}}
	}
	for _, fv := range ex.fn.FreeVars {
		elem := fv.Type().(*types.Pointer).Elem()
		vars[fv.Name()] = Val{"cell:" + ex.val(fv), GType{T: elem}}
	}
	return env.with(vars)
}

// mergeStates joins predecessor states with ite on edge conditions.
func (ex *Exec) mergeStates(sts []*State, pcs []string) *State {
	g := ex.g
	if len(sts) == 1 {
		return sts[0].clone()
	}
	res := sts[0].clone()
	// epochs
	sameEpoch := true
	for _, s := range sts[1:] {
		if s.epoch != sts[0].epoch {
			sameEpoch = false
		}
	}
	keys := map[string]bool{}
	for _, s := range sts {
		for k := range s.m {
			keys[k] = true
		}
	}
	if !sameEpoch {
		for _, k := range g.compOrd {
			keys[k] = true
		}
		g.nfresh++
		res.epoch = fmt.Sprintf("j%d", g.nfresh)
		res.m = map[string]string{}
		res.joinOf = nil
		for _, s := range sts {
			res.joinOf = append(res.joinOf, s.clone())
		}
		res.joinPCs = append([]string{}, pcs...)
	}
	var ks []string
	for k := range keys {
		ks = append(ks, k)
	}
	sort.Strings(ks)
	for _, k := range ks {
		first := g.get(sts[0], k)
		same := true
		for _, s := range sts[1:] {
			if g.get(s, k) != first {
				same = false
			}
		}
		if same {
			res.m[k] = first
			continue
		}
		term := g.get(sts[len(sts)-1], k)
		for i := len(sts) - 2; i >= 0; i-- {
			term = fmt.Sprintf("(ite %s %s %s)", pcs[i], g.get(sts[i], k), term)
		}
		sym := g.fresh(k)
		g.decls = append(g.decls, fmt.Sprintf("(declare-const %s %s)", sym, g.comps[k]))
		g.addFact(fmt.Sprintf("(= %s %s)", sym, term))
		res.m[k] = sym
	}
	// locals
	lkeys := map[string]bool{}
	for _, s := range sts {
		for k := range s.locals {
			lkeys[k] = true
		}
	}
	for k := range lkeys {
		var vals []string
		ok := true
		for _, s := range sts {
			v, has := s.locals[k]
			if !has {
				ok = false
				break
			}
			vals = append(vals, v)
		}
		if !ok {
			delete(res.locals, k) // not initialised on all paths: dead here
			continue
		}
		same := true
		for _, v := range vals[1:] {
			if v != vals[0] {
				same = false
			}
		}
		if same {
			res.locals[k] = vals[0]
			continue
		}
		term := vals[len(vals)-1]
		for i := len(vals) - 2; i >= 0; i-- {
			term = fmt.Sprintf("(ite %s %s %s)", pcs[i], vals[i], term)
		}
		srt := ex.localSort(k, "")
		if srt == "" {
			res.locals[k] = term
		} else {
			res.locals[k] = ex.bind(strings.Trim(k, "|")+".j", srt, term)
		}
	}
	return res
}

func (ex *Exec) postconditions() {
	g := ex.g
	con := ex.c
	sig := ex.fn.Signature
	rn := resultNames(sig)
	if len(ex.rets) == 0 {
		g.warnf("%s: no reachable return", g.curFunc)
	}
	type piece struct{ pc, goal string }
	ens := con.Ens
	if con.Trusted {
		ens = nil // `trusted` + `check-calls`: ensures/modifies stay assumptions; only the call-site clauses are checked on the body
	}
	for _, e := range ens {
		var parts []string
		for _, r := range ex.rets {
			env := ex.funcEnv(r.st)
			env = ex.withParams(env)
			vars := map[string]Val{}
			for i, res := range r.results {
				t := sig.Results().At(i).Type()
				vars[rn[i]] = Val{res, GType{T: t}}
				vars[fmt.Sprintf("result%d", i)] = Val{res, GType{T: t}}
				if len(r.results) == 1 {
					vars["result"] = Val{res, GType{T: t}}
				}
			}
			env = env.with(vars)
			ex.curBlk = r.blk
			t, err := env.trBool(e.E)
			if err != nil {
				if isMissingCall(err) {
					t = "false"
					e = &Clause{Label: e.Label, Src: e.Src + "   [clause does not bind to the code: " + err.Error() + "]", E: e.E, File: e.File, Line: e.Line}
				} else {
					unsup("%s:%d: ensures[%s]: %v", e.File, e.Line, e.Label, err)
				}
			}
			parts = append(parts, fmt.Sprintf("(=> %s %s)", r.pc, t))
			if os.Getenv("GOVC_SPLIT") != "" {
				g.obls = append(g.obls, &Obligation{Name: fmt.Sprintf("%s/post/%s@b%d", g.curFunc, e.Label, r.blk.Index), Func: g.curFunc, Kind: "post", Label: e.Label, Goal: t, PC: r.pc,
					NFacts: len(g.facts), Src: e.Src, g: g, Expect: "unsat", Props: con.Props})
			}
		}
		goal := "true"
		if len(parts) == 1 {
			goal = parts[0]
		} else if len(parts) > 1 {
			goal = "(and " + strings.Join(parts, " ") + ")"
		}
		o := &Obligation{Name: fmt.Sprintf("%s/post/%s", g.curFunc, e.Label), Func: g.curFunc, Kind: "post", Label: e.Label, Goal: goal, PC: "true",
			NFacts: len(g.facts), Src: e.Src, Where: fmt.Sprintf("%s:%d", e.File, e.Line), g: g, Expect: "unsat", Props: con.Props}
		g.obls = append(g.obls, o)
		// a proved postcondition may be used for the ones listed after it (never a recorded known finding)
		if !g.noAssume[o.Name] {
			g.addFact(goal)
		}
	}
	// propagates: error of call k non-nil (and call not re-executed) ==> function's error result non-nil
	ex.stopsLoop = map[string]bool{}
	for _, pr := range con.StopsLoop {
		ex.stopsLoop[pr] = true
	}
	for _, pr := range con.Propag {
		ex.propagates(pr)
	}
	for _, pr := range con.StopsLoop {
		found := false
		for _, p2 := range con.Propag {
			if p2 == pr {
				found = true
			}
		}
		if !found {
			ex.propagates(pr)
		}
	}
	// before/after clauses that name a specific call site (#n) which the body does not contain
	for _, ca := range con.Asserts {
		if ca.Ord != 0 && !ex.assertHit[ca] {
			ex.bindingFail("assert", ca.Clause.Label, ca.Clause.Src, fmt.Sprintf("no call %s#%d in the function body", ca.Callee, ca.Ord), fmt.Sprintf("%s:%d", ca.Clause.File, ca.Clause.Line))
		}
	}
	// canary: reachability of some return under all assumptions (must be satisfiable)
	var pcs []string
	for _, r := range ex.rets {
		pcs = append(pcs, r.pc)
	}
	if len(pcs) > 0 {
		goal := pcs[0]
		if len(pcs) > 1 {
			goal = "(or " + strings.Join(pcs, " ") + ")"
		}
		g.obls = append(g.obls, &Obligation{Name: g.curFunc + "/cover/return", Func: g.curFunc, Kind: "cover", Label: "return", Goal: goal, PC: "true",
			NFacts: len(g.facts), g: g, Expect: "sat", Props: con.Props})
	}
}

// propagates "callee#n": the error result of that call, when non-nil, forces a non-nil error result
// of the function on every path on which the function returns after that call (loop-free reading).
func (ex *Exec) propagates(ref string) {
	g := ex.g
	m := callRefRe.FindStringSubmatch(ref)
	name := m[1]
	ord := 0
	if m[2] != "" {
		fmt.Sscanf(m[2], "%d", &ord)
	}
	sig := ex.fn.Signature
	ei := -1
	for i := 0; i < sig.Results().Len(); i++ {
		if types.Identical(sig.Results().At(i).Type(), types.Universe.Lookup("error").Type()) {
			ei = i
		}
	}
	if ei < 0 {
		unsup("propagates %s: function has no error result", ref)
	}
	found := false
	for _, rec := range ex.callLog {
		if rec.short != name || (ord != 0 && rec.ord != ord) {
			continue
		}
		found = true
		// error result of the call
		var errTerm string
		if v, ok := rec.instr.(ssa.Value); ok {
			if tt, isT := v.Type().(*types.Tuple); isT {
				for i := 0; i < tt.Len(); i++ {
					if types.Identical(tt.At(i).Type(), types.Universe.Lookup("error").Type()) {
						errTerm = rec.res[i]
					}
				}
			} else if types.Identical(v.Type(), types.Universe.Lookup("error").Type()) {
				errTerm = rec.res[0]
			}
		}
		if errTerm == "" {
			unsup("propagates %s: call has no error result", ref)
		}
		var parts []string
		for _, r := range ex.rets {
			parts = append(parts, fmt.Sprintf("(=> (and %s %s (not (= (i.tag %s) 0))) (not (= (i.tag %s) 0)))", r.pc, rec.pc, errTerm, r.results[ei]))
		}
		// `stops-loop X#n` (opt-in; retry loops legitimately go round again after a CAS failure): after a failed call the
		// iteration must not go round again (it has to leave through a return, which the clauses above cover); otherwise
		// a later iteration or the code after the loop could drop the error
		if ex.stopsLoop[ref] {
			for _, bpc := range ex.backPCs {
				parts = append(parts, fmt.Sprintf("(not (and %s %s (not (= (i.tag %s) 0))))", bpc, rec.pc, errTerm))
			}
		}
		goal := "(and " + strings.Join(parts, " ") + ")"
		if len(parts) == 1 {
			goal = parts[0]
		}
		g.obls = append(g.obls, &Obligation{Name: fmt.Sprintf("%s/propagates/%s#%d", g.curFunc, name, rec.ord), Func: g.curFunc, Kind: "propagates",
			Label: fmt.Sprintf("%s#%d", name, rec.ord), Goal: goal, PC: "true", NFacts: len(g.facts), g: g, Expect: "unsat", Props: ex.c.Props,
			Src: "error of " + ref + " reaches the caller"})
	}
	if !found {
		ex.bindingFail("propagates", ref, "error of "+ref+" reaches the caller", "no such call in the function body", "")
	}
}

// ---------- lemmas ----------

func verifyLemma(P *Program, lem *Contract) (g *Gen, err error) {
	g = newGen(P, lem.Mode, lem.Pkg)
	g.curFunc = shortKey(lem.Pkg) + ".lemma." + lem.Name
	ex := &Exec{g: g, P: P, vals: map[ssa.Value]string{}, addrs: map[ssa.Value]*Addr{}, tuples: map[ssa.Value][]string{},
		closures: map[ssa.Value]*ssa.MakeClosure{}, localOK: map[*ssa.Alloc]bool{}, dbg: map[string][]dbgRef{}, ranges: map[ssa.Value]*rangeInfo{},
		callOrd: map[string]int{}, heapArgs: map[string]bool{}, c: lem}
	ex.entry = g.entryState()
	ex.pcCur = "true"
	defer func() {
		if r := recover(); r != nil {
			switch x := r.(type) {
			case unsupported:
				err = fmt.Errorf("lemma %s: %s", lem.Name, x.msg)
			case specErr:
				err = fmt.Errorf("lemma %s: %s", lem.Name, x.msg)
			default:
				panic(r)
			}
		}
	}()
	env := &Env{g: g, ex: ex, vars: map[string]Val{}, st: ex.entry, old: ex.entry, pkgPath: lem.Pkg}
	for _, b := range lem.Params {
		gt := env.resolveType(b.Type)
		n := fmt.Sprintf("|l:%s|", b.Name)
		g.decls = append(g.decls, fmt.Sprintf("(declare-const %s %s)", n, g.sortOfG(gt)))
		env.vars[b.Name] = Val{n, gt}
		if gt.T != nil {
			if rf := g.rangeFact(gt.T, n); rf != "" {
				g.addFact(rf)
			}
		}
	}
	for _, r := range lem.Req {
		t, e := env.trBool(r.E)
		if e != nil {
			return g, fmt.Errorf("%s:%d: %v", r.File, r.Line, e)
		}
		g.addFact(t)
	}
	g.obls = append(g.obls, &Obligation{Name: g.curFunc + "/cover/requires", Func: g.curFunc, Kind: "cover", Label: "requires", Goal: "true", PC: "true",
		NFacts: len(g.facts), g: g, Expect: "sat", Props: lem.Props})
	nf := len(g.facts)
	for _, e := range lem.Ens {
		t, er := env.trBool(e.E)
		if er != nil {
			return g, fmt.Errorf("%s:%d: %v", e.File, e.Line, er)
		}
		g.obls = append(g.obls, &Obligation{Name: fmt.Sprintf("%s/lemma/%s", g.curFunc, e.Label), Func: g.curFunc, Kind: "lemma", Label: e.Label, Goal: t, PC: "true",
			NFacts: nf, Src: e.Src, Where: fmt.Sprintf("%s:%d", e.File, e.Line), g: g, Expect: "unsat", Props: lem.Props})
	}
	g.includeAxioms(ex)
	return g, nil
}

// resetGhosts: `resets name` = ghost assignment name := {} executed at function entry (and, symmetrically, at every call
// site before the precondition is asserted). Ghost state does not influence execution, so this is a specification
// statement, not an assumption.
func (ex *Exec) resetGhosts(st *State, con *Contract) {
	g := ex.g
	for _, name := range con.Resets {
		gv, ok := g.P.GhostVars[name]
		if !ok {
			unsup("resets %s: not a ghost var", name)
		}
		env := &Env{g: g, ex: ex, vars: map[string]Val{}, st: st, old: st, pkgPath: gv.Pkg}
		gt := env.resolveTypeIn(*gv.GType, gv.Pkg)
		if gt.Set == nil {
			unsup("resets %s: only set-typed ghost vars can be reset", name)
		}
		comp := "GV:" + name
		g.compDecl(comp, g.sortOfG(gt))
		g.set(st, comp, fmt.Sprintf("((as const %s) false)", g.sortOfG(gt)))
	}
}
