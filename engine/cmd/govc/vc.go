package main

// VC driver: functions under contract, lemmas, pure function definitions, contract application at calls.

import (
	"fmt"
	"go/types"
	"sort"
	"strings"

	"golang.org/x/tools/go/ssa"
)

type pureDef struct {
	names    []string
	retTs    []types.Type
	name     string
	text     string
	heapArgs []string
	retT     types.Type
	building bool
	rec      bool
}

func (ex *Exec) addObl(kind, label, goal, pc, src, where string) *Obligation {
	g := ex.g
	fname := g.curFunc
	o := &Obligation{Name: fmt.Sprintf("%s/%s/%s", fname, kind, label), Func: fname, Kind: kind, Label: label, Goal: goal, PC: pc,
		NFacts: len(g.facts), Src: src, Where: where, g: g, Expect: "unsat"}
	if ex.c != nil {
		o.Props = ex.c.Props
	}
	g.obls = append(g.obls, o)
	// later obligations may assume this one (not if it is a recorded known finding: a clause known to fail
	// must not support the proof of others)
	if kind != "cover" && kind != "canary" && !g.noAssume[o.Name] {
		g.assume(pc, goal)
	}
	return o
}

// ---------- loops / CFG ----------

type loopInfo struct {
	header *ssa.BasicBlock
	body   map[*ssa.BasicBlock]bool
	ord    int
}

func findLoops(fn *ssa.Function) (map[*ssa.BasicBlock]*loopInfo, map[[2]int]bool) {
	loops := map[*ssa.BasicBlock]*loopInfo{}
	back := map[[2]int]bool{}
	for _, b := range fn.Blocks {
		for _, s := range b.Succs {
			if s.Dominates(b) {
				back[[2]int{b.Index, s.Index}] = true
				li := loops[s]
				if li == nil {
					li = &loopInfo{header: s, body: map[*ssa.BasicBlock]bool{s: true}}
					loops[s] = li
				}
				// natural loop: all blocks that reach b without passing through s
				var stack []*ssa.BasicBlock
				if !li.body[b] {
					li.body[b] = true
					stack = append(stack, b)
				}
				for len(stack) > 0 {
					n := stack[len(stack)-1]
					stack = stack[:len(stack)-1]
					for _, p := range n.Preds {
						if !li.body[p] {
							li.body[p] = true
							stack = append(stack, p)
						}
					}
				}
			}
		}
	}
	var hs []*ssa.BasicBlock
	for h := range loops {
		hs = append(hs, h)
	}
	sort.Slice(hs, func(i, j int) bool { return hs[i].Index < hs[j].Index })
	for i, h := range hs {
		loops[h].ord = i + 1
	}
	return loops, back
}

func topoOrder(fn *ssa.Function, back map[[2]int]bool) []*ssa.BasicBlock {
	var order []*ssa.BasicBlock
	seen := map[*ssa.BasicBlock]bool{}
	var dfs func(b *ssa.BasicBlock)
	dfs = func(b *ssa.BasicBlock) {
		seen[b] = true
		for i := len(b.Succs) - 1; i >= 0; i-- {
			s := b.Succs[i]
			if back[[2]int{b.Index, s.Index}] || seen[s] {
				continue
			}
			dfs(s)
		}
		order = append(order, b)
	}
	dfs(fn.Blocks[0])
	for i, j := 0, len(order)-1; i < j; i, j = i+1, j-1 {
		order[i], order[j] = order[j], order[i]
	}
	return order
}

// written components / locals inside a loop body (syntactic)
func (ex *Exec) loopWrites(li *loopInfo) (comps map[string]bool, locals map[string]bool, all bool) {
	comps, locals, all, _ = ex.blockWrites(li.body, false)
	return
}

func (ex *Exec) closureOf(v ssa.Value) (*ssa.MakeClosure, bool) {
	if mc, ok := ex.closures[v]; ok {
		return mc, true
	}
	mc, ok := v.(*ssa.MakeClosure)
	return mc, ok
}

// blockWrites: components possibly written by the given blocks (syntactic). With skipFresh, stores whose
// address provably derives from an allocation made in this function are ignored (they cannot be observed
// by a caller through pre-existing memory). unknown lists the callees that made `all` true.
func (ex *Exec) blockWrites(blocks map[*ssa.BasicBlock]bool, skipFresh bool) (comps map[string]bool, locals map[string]bool, all bool, unknown []string) {
	comps, locals = map[string]bool{}, map[string]bool{}
	g := ex.g
	var addrComps func(v ssa.Value)
	addrComps = func(v ssa.Value) {
		switch a := v.(type) {
		case *ssa.Alloc:
			if ex.localOK[a] {
				locals["|"+ex.fn.Name()+"."+a.Name()+"|"] = true
				return
			}
			elem := a.Type().(*types.Pointer).Elem()
			ex.typeComps(elem, comps)
		case *ssa.FieldAddr:
			if root, ok := rootAlloc(a); ok && ex.localOK[root] {
				locals["|"+ex.fn.Name()+"."+root.Name()+"|"] = true
				return
			}
			stT := a.X.Type().Underlying().(*types.Pointer).Elem()
			ft := stT.Underlying().(*types.Struct).Field(a.Field).Type()
			if _, isSt := ft.Underlying().(*types.Struct); isSt {
				ex.typeComps(ft, comps)
			} else {
				// nested path under a field address: root component is the outermost field comp
				if inner, ok := a.X.(*ssa.FieldAddr); ok {
					it := inner.X.Type().Underlying().(*types.Pointer).Elem()
					ift := it.Underlying().(*types.Struct).Field(inner.Field).Type()
					if _, isSt := ift.Underlying().(*types.Struct); !isSt {
						addrComps(inner)
						return
					}
				}
				comps[g.fieldComp(stT, a.Field)] = true
			}
		case *ssa.IndexAddr:
			switch xt := a.X.Type().Underlying().(type) {
			case *types.Slice:
				comps[g.arrComp(xt.Elem())] = true
			case *types.Pointer:
				if _, ok := a.X.(*ssa.FieldAddr); ok {
					addrComps(a.X)
					return
				}
				if root, ok := a.X.(*ssa.Alloc); ok && ex.localOK[root] {
					locals["|"+ex.fn.Name()+"."+root.Name()+"|"] = true
					return
				}
				comps[g.arrComp(xt.Elem().Underlying().(*types.Array).Elem())] = true
			}
		default:
			pt, ok := v.Type().Underlying().(*types.Pointer)
			if !ok {
				return
			}
			ex.typeComps(pt.Elem(), comps)
		}
	}
	for b := range blocks {
		for _, in := range b.Instrs {
			switch x := in.(type) {
			case *ssa.Store:
				if skipFresh && freshRoot(x.Addr, 0) {
					continue
				}
				addrComps(x.Addr)
			case *ssa.MapUpdate:
				if skipFresh && freshRoot(x.Map, 0) {
					continue
				}
				mt := x.Map.Type().Underlying().(*types.Map)
				h, v, l := g.mapComps(mt)
				comps[h], comps[v], comps[l] = true, true, true
			case *ssa.Alloc, *ssa.MakeMap, *ssa.MakeSlice, *ssa.MakeClosure, *ssa.MakeChan:
				if skipFresh {
					continue
				}
				comps[g.allocComp()] = true
				if a, ok := x.(*ssa.Alloc); ok {
					if ex.localOK[a] {
						locals["|"+ex.fn.Name()+"."+a.Name()+"|"] = true
					} else {
						ex.typeComps(a.Type().(*types.Pointer).Elem(), comps)
					}
				}
				if mm, ok := x.(*ssa.MakeMap); ok {
					h, v, l := g.mapComps(mm.Type().Underlying().(*types.Map))
					comps[h], comps[v], comps[l] = true, true, true
				}
				if ms, ok := x.(*ssa.MakeSlice); ok {
					comps[g.arrComp(ms.Type().Underlying().(*types.Slice).Elem())] = true
				}
			case *ssa.Range:
				locals["|"+ex.fn.Name()+"."+x.Name()+".visited|"] = true
			case *ssa.Next:
				if r, ok := x.Iter.(*ssa.Range); ok {
					locals["|"+ex.fn.Name()+"."+r.Name()+".visited|"] = true
				}
			case *ssa.Go:
				all = true
				unknown = append(unknown, "go statement")
			case ssa.CallInstruction:
				c := x.Common()
				if b, ok := c.Value.(*ssa.Builtin); ok && !c.IsInvoke() {
					if skipFresh && len(c.Args) > 0 && freshRoot(c.Args[0], 0) {
						continue
					}
					switch b.Name() {
					case "append":
						comps[g.arrComp(c.Args[0].Type().Underlying().(*types.Slice).Elem())] = true
						if !skipFresh {
							comps[g.allocComp()] = true
						}
					case "copy":
						comps[g.arrComp(c.Args[0].Type().Underlying().(*types.Slice).Elem())] = true
					case "delete":
						h, v, l := g.mapComps(c.Args[0].Type().Underlying().(*types.Map))
						comps[h], comps[v], comps[l] = true, true, true
					}
					continue
				}
				key, _ := ex.calleeKey(c)
				con := ex.P.Contracts[key]
				if con != nil && ex.c != nil && len(ex.c.OnlyContracts) > 0 && !con.Pure {
					keep := false
					for _, n := range ex.c.OnlyContracts {
						if n == calleeShortName(c) || strings.HasSuffix(key, "."+n) {
							keep = true
						}
					}
					if !keep {
						con = nil
					}
				}
				switch {
				case key != "" && inertWritesArgs(key):
					for _, a := range c.Args {
						if sl, ok := a.Type().Underlying().(*types.Slice); ok && !(skipFresh && freshRoot(a, 0)) {
							comps[g.arrComp(sl.Elem())] = true
						}
					}
				case key == "sync.Once.Do" && ex.onceDoReadOnly(c):
				case key == "sort.Slice" && len(c.Args) == 2 && func() bool {
					mi, ok := c.Args[0].(*ssa.MakeInterface)
					if !ok {
						return false
					}
					sl, ok := mi.X.Type().Underlying().(*types.Slice)
					if !ok {
						return false
					}
					if _, isC := ex.closureOf(c.Args[1]); !isC {
						return false
					}
					comps[g.arrComp(sl.Elem())] = true
					return true
				}():
				case con != nil && con.Pure:
				case con != nil && con.ModAll:
					all = true
					unknown = append(unknown, shortKey(key)+" (modifies *)")
				case con != nil:
					// modifies entries: component-level over-approximation
					var csig *types.Signature
					var recvT types.Type
					if c.IsInvoke() {
						csig, _ = c.Method.Type().(*types.Signature)
						recvT = c.Value.Type()
					} else {
						csig = c.Signature()
					}
					if ws, ok := ex.modCompsSig(con, csig, recvT); ok {
						for k := range ws {
							comps[k] = true
						}
					} else {
						all = true
						unknown = append(unknown, shortKey(key)+" (modifies not analysable)")
					}
					if !skipFresh {
						comps[g.allocComp()] = true
					}
				case key != "" && (isInert(key) || func() bool { _, f := ex.calleeKey(c); return f != nil && ex.P.readOnly(f) }()):
					for _, a := range c.Args {
						if _, isAddr := a.(*ssa.FieldAddr); isAddr {
							addrComps(a)
						}
						if _, isAddr := a.(*ssa.IndexAddr); isAddr {
							addrComps(a)
						}
					}
				default:
					all = true
					if key == "" {
						unknown = append(unknown, "dynamic call")
					} else {
						unknown = append(unknown, shortKey(key))
					}
				}
				if _, isDefer := x.(*ssa.Defer); isDefer && !isIgnorableDefer(calleeShortName(c)) {
					all = true
					unknown = append(unknown, "defer "+calleeShortName(c))
				}
			}
		}
	}
	return
}

func rootAlloc(v ssa.Value) (*ssa.Alloc, bool) {
	for {
		switch a := v.(type) {
		case *ssa.Alloc:
			return a, true
		case *ssa.FieldAddr:
			v = a.X
		case *ssa.IndexAddr:
			v = a.X
		default:
			return nil, false
		}
	}
}

// typeComps: all components that hold (parts of) a value of type t stored behind a Ref.
func (ex *Exec) typeComps(t types.Type, out map[string]bool) {
	g := ex.g
	switch u := t.Underlying().(type) {
	case *types.Struct:
		for i := 0; i < u.NumFields(); i++ {
			ft := u.Field(i).Type()
			if _, isSt := ft.Underlying().(*types.Struct); isSt {
				ex.typeComps(ft, out)
			} else {
				out[g.fieldComp(t, i)] = true
			}
		}
	case *types.Array:
		out[g.arrComp(u.Elem())] = true
	default:
		out[g.cellComp(t)] = true
	}
}

// modComps: component-level write set of a contract's modifies clause (evaluated syntactically on types).
func (ex *Exec) modComps(con *Contract) (map[string]bool, bool) {
	return ex.modCompsSig(con, nil, nil)
}

// modCompsSig: for interface-method / external contracts the parameter names and types come from the
// call's signature (recv = the interface value).
func (ex *Exec) modCompsSig(con *Contract, sig *types.Signature, recvT types.Type) (map[string]bool, bool) {
	out := map[string]bool{}
	if len(con.Mod) == 0 {
		return out, !con.ModAll
	}
	fn := ex.P.Funcs[con.Key]
	env, err := ex.contractEnvTypes(con, fn)
	if err != nil {
		return nil, false
	}
	if fn == nil && sig != nil {
		names := sigParamNames(sig, nil, recvT != nil)
		var ts []types.Type
		if recvT != nil {
			ts = append(ts, recvT)
		} else if sig.Recv() != nil {
			ts = append(ts, sig.Recv().Type())
		}
		for i := 0; i < sig.Params().Len(); i++ {
			ts = append(ts, sig.Params().At(i).Type())
		}
		for i, n := range names {
			if i < len(ts) {
				env.vars[n] = Val{"0", GType{T: ts[i]}}
				env.vars[fmt.Sprintf("arg%d", i)] = Val{"0", GType{T: ts[i]}}
			}
		}
	}
	ok := true
	func() {
		defer func() {
			if r := recover(); r != nil {
				ok = false
			}
		}()
		for _, m := range con.Mod {
			for _, lv := range env.lvalues(m) {
				out[lv.comp] = true
			}
		}
	}()
	return out, ok
}

// ---------- local variable lookup for invariants ----------

func (ex *Exec) lookupLocal(env *Env, name string) (Val, bool) {
	return ex.lookupLocalX(env, name, false)
}

// lookupLocalX: skipParams = the current value of the source variable even if it is a (reassigned) parameter.
func (ex *Exec) lookupLocalX(env *Env, name string, skipParams bool) (Val, bool) {
	fn := ex.fn
	if fn == nil {
		return Val{}, false
	}
	// parameters (entry values)
	for _, p := range fn.Params {
		if p.Name() == name && !skipParams {
			return Val{ex.val(p), GType{T: p.Type()}}, true
		}
	}
	for _, fv := range fn.FreeVars {
		if fv.Name() == name {
			elem := fv.Type().(*types.Pointer).Elem()
			ref := ex.val(fv)
			if _, isSt := elem.Underlying().(*types.Struct); isSt {
				return Val{S: ref, G: GType{T: elem, Loc: true}}, true
			}
			return Val{S: fmt.Sprintf("(select %s %s)", ex.compGet(env.st, ex.g.cellComp(elem)), ref), G: GType{T: elem}}, true
		}
	}
	hdr := env.hdr
	if hdr != nil {
		for _, in := range hdr.Instrs {
			phi, ok := in.(*ssa.Phi)
			if !ok {
				break
			}
			if phi.Comment == name {
				if o, ok := env.phi[phi]; ok {
					return Val{o, GType{T: phi.Type()}}, true
				}
				return Val{ex.val(phi), GType{T: phi.Type()}}, true
			}
		}
	}
	refs := ex.dbg[name]
	at := hdr
	if at == nil && ex.curBlk != nil {
		at = ex.curBlk
	}
	// address-taken variables
	for i := range refs {
		r := &refs[i]
		if !r.isAddr {
			continue
		}
		if a, ok := r.v.(*ssa.Alloc); ok {
			elem := a.Type().(*types.Pointer).Elem()
			if ad, ok := ex.addrs[a]; ok {
				return Val{ex.load(env.st, ad), GType{T: elem}}, true
			}
			if ref, ok := ex.vals[a]; ok {
				if _, isSt := elem.Underlying().(*types.Struct); isSt {
					return Val{S: ref, G: GType{T: elem, Loc: true}}, true
				}
				return Val{S: fmt.Sprintf("(select %s %s)", ex.compGet(env.st, ex.g.cellComp(elem)), ref), G: GType{T: elem}}, true
			}
		}
	}
	// a variable that lives in memory (captured by a closure, address taken): the Alloc named `name`
	// that dominates this point (innermost), read in the current state
	{
		var bestA *ssa.Alloc
		for _, b := range fn.Blocks {
			for _, in := range b.Instrs {
				a, ok := in.(*ssa.Alloc)
				if !ok || a.Comment != name {
					continue
				}
				if at != nil && !(b == at || b.Dominates(at)) {
					continue
				}
				if bestA == nil || bestA.Block().Dominates(b) {
					bestA = a
				}
			}
		}
		if bestA != nil {
			elem := bestA.Type().(*types.Pointer).Elem()
			if ad, ok := ex.addrs[bestA]; ok {
				if _, has := env.st.locals[ad.local]; has || ad.kind != akLocal {
					return Val{ex.load(env.st, ad), GType{T: elem}}, true
				}
			} else if ref, ok := ex.vals[bestA]; ok {
				if _, isSt := elem.Underlying().(*types.Struct); isSt {
					return Val{S: ref, G: GType{T: elem, Loc: true}}, true
				}
				return Val{S: fmt.Sprintf("(select %s %s)", ex.compGet(env.st, ex.g.cellComp(elem)), ref), G: GType{T: elem}}, true
			}
		}
	}
	// walk up the dominator tree: nearest phi named `name`, or latest debug reference
	for b := at; b != nil; b = b.Idom() {
		if b != hdr || hdr == nil {
			// latest reference in this block
			var best *dbgRef
			for i := range refs {
				r := &refs[i]
				if r.isAddr || r.blk != b {
					continue
				}
				if _, ok := ex.vals[r.v]; !ok {
					if _, isConst := r.v.(*ssa.Const); !isConst {
						continue
					}
				}
				if best == nil || best.idx < r.idx {
					best = r
				}
			}
			if best != nil {
				return Val{ex.val(best.v), GType{T: best.v.Type()}}, true
			}
		}
		if b != hdr {
			for _, in := range b.Instrs {
				phi, ok := in.(*ssa.Phi)
				if !ok {
					break
				}
				if phi.Comment == name {
					if v, ok := ex.vals[phi]; ok {
						return Val{v, GType{T: phi.Type()}}, true
					}
				}
			}
		}
	}
	if skipParams {
		for _, p := range fn.Params {
			if p.Name() == name {
				return Val{ex.val(p), GType{T: p.Type()}}, true
			}
		}
	}
	return Val{}, false
}

// ---------- contract environments ----------

func sigParamNames(sig *types.Signature, sfn *ssa.Function, invoke bool) []string {
	var names []string
	if sfn != nil && len(sfn.Params) > 0 {
		for _, p := range sfn.Params {
			names = append(names, p.Name())
		}
		return names
	}
	if sig.Recv() != nil || invoke {
		n := "recv"
		if sig.Recv() != nil && sig.Recv().Name() != "" && sig.Recv().Name() != "_" {
			n = sig.Recv().Name()
		}
		names = append(names, n)
	}
	for i := 0; i < sig.Params().Len(); i++ {
		n := sig.Params().At(i).Name()
		if n == "" || n == "_" {
			n = fmt.Sprintf("arg%d", i)
		}
		names = append(names, n)
	}
	return names
}

func resultNames(sig *types.Signature) []string {
	var names []string
	n := sig.Results().Len()
	for i := 0; i < n; i++ {
		nm := sig.Results().At(i).Name()
		if nm == "" || nm == "_" {
			if n == 1 {
				nm = "result"
			} else {
				nm = fmt.Sprintf("result%d", i)
			}
		}
		names = append(names, nm)
	}
	return names
}

// contractEnvTypes: environment with typed dummy terms (for syntactic analyses).
func (ex *Exec) contractEnvTypes(con *Contract, fn *ssa.Function) (*Env, error) {
	env := &Env{g: ex.g, ex: ex, vars: map[string]Val{}, st: ex.g.entryState(), pkgPath: con.Pkg}
	if fn == nil {
		// interface method / external function: only entries that do not mention parameters can be analysed
		if env.pkgPath == "" {
			env.pkgPath = ex.g.pkgPath
		}
		return env, nil
	}
	if env.pkgPath == "" && fn.Pkg != nil {
		env.pkgPath = fn.Pkg.Pkg.Path()
	}
	names := sigParamNames(fn.Signature, fn, false)
	var ptypes []types.Type
	if len(fn.Params) > 0 {
		for _, p := range fn.Params {
			ptypes = append(ptypes, p.Type())
		}
	} else {
		if fn.Signature.Recv() != nil {
			ptypes = append(ptypes, fn.Signature.Recv().Type())
		}
		for i := 0; i < fn.Signature.Params().Len(); i++ {
			ptypes = append(ptypes, fn.Signature.Params().At(i).Type())
		}
	}
	for i, n := range names {
		env.vars[n] = Val{"0", GType{T: ptypes[i]}}
	}
	// closure free variables (types are all the syntactic analyses need)
	for _, fv := range fn.FreeVars {
		env.vars[fv.Name()] = Val{"cell:0", GType{T: fv.Type().(*types.Pointer).Elem()}}
	}
	return env, nil
}

type lvalue struct {
	ty    types.Type
	comp  string
	base  string // "" = whole component
	kind  string // "field" | "arr" | "map" | "cell"
	sort  string
}

// lvalues of a modifies entry
func (env *Env) lvalues(e Expr) []lvalue {
	g := env.g
	ex := env.ex
	switch x := e.(type) {
	case *ESel:
		// Type.field (whole component) ?
		if id, ok := x.X.(*EIdent); ok {
			if _, isVar := env.lookupIdent(id.Name); !isVar {
				if t := g.P.lookupNamed(env.pkgPath, id.Name); t != nil {
					return env.fieldLvalues(t, "", x.Name)
				}
			}
		}
		v := env.tr(x.X)
		var stT types.Type
		if v.G.Loc {
			stT = v.G.T
		} else if s, ok := structOf(v.G.T); ok {
			stT = s
		} else {
			sfail("modifies %s: receiver is not a heap struct", e.String())
		}
		return env.fieldLvalues(stT, v.S, x.Name)
	case *ECall:
		if id, ok := x.Fun.(*EIdent); ok && id.Name == "elems" && len(x.Args) == 1 {
			// elems(TypeName): the contents of EVERY map / slice of that type (whole component)
			if te, err := parseTypeString(x.Args[0].String()); err == nil {
				isVar := false
				if aid, isId := x.Args[0].(*EIdent); isId {
					_, isVar = env.lookupIdent(aid.Name)
				}
				if sel, isSel := x.Args[0].(*ESel); isSel {
					if bid, isId := sel.X.(*EIdent); isId {
						_, isVar = env.lookupIdent(bid.Name)
					} else {
						isVar = true
					}
				}
				if !isVar {
					var gt GType
					okT := true
					func() {
						defer func() {
							if recover() != nil {
								okT = false
							}
						}()
						gt = env.resolveType(te)
					}()
					if okT && gt.T != nil {
						switch t := gt.T.Underlying().(type) {
						case *types.Slice:
							return []lvalue{{comp: g.arrComp(t.Elem())}}
						case *types.Map:
							h, vv, l := g.mapComps(t)
							return []lvalue{{comp: h}, {comp: vv}, {comp: l}}
						}
					}
				}
			}
			v := env.value(env.tr(x.Args[0]))
			switch t := v.G.T.Underlying().(type) {
			case *types.Slice:
				return []lvalue{{comp: g.arrComp(t.Elem()), base: fmt.Sprintf("(s.arr %s)", v.S), kind: "arr"}}
			case *types.Map:
				h, vv, l := g.mapComps(t)
				return []lvalue{{comp: h, base: v.S}, {comp: vv, base: v.S}, {comp: l, base: v.S}}
			}
			sfail("elems() needs slice or map")
		}
	case *EDeref:
		v := env.tr(x.X)
		p, ok := v.G.T.Underlying().(*types.Pointer)
		if !ok {
			sfail("modifies *x: not a pointer")
		}
		m := map[string]bool{}
		ex.typeComps(p.Elem(), m)
		var out []lvalue
		if _, isSt := p.Elem().Underlying().(*types.Struct); isSt {
			return env.structLvalues(p.Elem(), v.S)
		}
		for c := range m {
			out = append(out, lvalue{comp: c, base: v.S})
		}
		return out
	case *EIdent:
		if gv, ok := g.P.GhostVars[x.Name]; ok {
			gt := env.resolveTypeIn(*gv.GType, gv.Pkg)
			comp := "GV:" + x.Name
			g.compDecl(comp, g.sortOfG(gt))
			return []lvalue{{comp: comp}}
		}
		// captured variable / global cell
		if v, ok := env.vars[x.Name]; ok && strings.HasPrefix(v.S, "cell:") {
			return []lvalue{{comp: g.cellComp(v.G.T), base: strings.TrimPrefix(v.S, "cell:")}}
		}
	}
	sfail("unsupported modifies entry %s", e.String())
	return nil
}

func (env *Env) structLvalues(stT types.Type, ref string) []lvalue {
	st := stT.Underlying().(*types.Struct)
	var out []lvalue
	for i := 0; i < st.NumFields(); i++ {
		ft := st.Field(i).Type()
		if _, isSt := ft.Underlying().(*types.Struct); isSt {
			out = append(out, env.structLvalues(ft, env.g.subRef(stT, i, ref))...)
		} else {
			out = append(out, lvalue{comp: env.g.fieldComp(stT, i), base: ref, ty: ft})
		}
	}
	return out
}

func (env *Env) fieldLvalues(stT types.Type, ref string, name string) []lvalue {
	g := env.g
	pk, tn := env.namedOf(stT)
	if gc, ok := g.P.Ghosts[pk+"."+tn+"."+name]; ok {
		gt := env.resolveTypeIn(*gc.GType, gc.Pkg)
		return []lvalue{{comp: g.ghostComp(pk, tn, name, g.sortOfG(gt)), base: ref}}
	}
	obj, index, _ := types.LookupFieldOrMethod(types.NewPointer(stT), true, env.pkgOf(), name)
	if obj == nil {
		for _, p := range g.P.Pkgs {
			obj, index, _ = types.LookupFieldOrMethod(types.NewPointer(stT), true, p.Types, name)
			if obj != nil {
				break
			}
		}
	}
	if obj == nil {
		sfail("modifies: no field %s in %s", name, stT)
	}
	cur := stT
	curRef := ref
	for k, i := range index {
		st := cur.Underlying().(*types.Struct)
		ft := st.Field(i).Type()
		if k == len(index)-1 {
			if _, isSt := ft.Underlying().(*types.Struct); isSt {
				if ref == "" {
					m := map[string]bool{}
					env.ex.typeComps(ft, m)
					var out []lvalue
					for c := range m {
						out = append(out, lvalue{comp: c})
					}
					return out
				}
				return env.structLvalues(ft, g.subRef(cur, i, curRef))
			}
			return []lvalue{{comp: g.fieldComp(cur, i), base: curRef, ty: ft}}
		}
		if _, isSt := ft.Underlying().(*types.Struct); isSt {
			if ref != "" {
				curRef = g.subRef(cur, i, curRef)
			}
			cur = ft
		} else {
			sfail("modifies through pointer field %s not supported", st.Field(i).Name())
		}
	}
	return nil
}

// applyContract: assert requires, havoc modifies, assume ensures.
func (ex *Exec) applyContract(st *State, con *Contract, sfn *ssa.Function, c *ssa.CallCommon, args []string, argTypes []types.Type, resTypes []types.Type, rec *callRec) []string {
	g := ex.g
	var sig *types.Signature
	if c.IsInvoke() {
		sig = c.Method.Type().(*types.Signature)
	} else {
		sig = c.Signature()
	}
	declFn := sfn
	if declFn == nil {
		declFn = ex.P.Funcs[con.Key]
	}
	names := sigParamNames(sig, declFn, c.IsInvoke())
	if len(names) != len(args) {
		// closures: free variables come first in Params? no: FreeVars are separate. Fallback positional
		names = nil
		for i := range args {
			names = append(names, fmt.Sprintf("arg%d", i))
		}
	}
	pk := con.Pkg
	if pk == "" && declFn != nil && declFn.Pkg != nil {
		pk = declFn.Pkg.Pkg.Path()
	}
	if pk == "" {
		pk = ex.g.pkgPath
	}
	ex.resetGhosts(st, con)
	pre := st.clone()
	env := &Env{g: g, ex: ex, vars: map[string]Val{}, st: pre, old: pre, pkgPath: pk, atCallSite: true}
	for i, n := range names {
		env.vars[n] = Val{args[i], GType{T: argTypes[i]}}
		env.vars[fmt.Sprintf("arg%d", i)] = Val{args[i], GType{T: argTypes[i]}}
	}
	// closure free variables: bound to the cells captured at the MakeClosure site
	if mc, ok := ex.closures[c.Value]; ok && declFn != nil {
		for i, fv := range declFn.FreeVars {
			elem := fv.Type().(*types.Pointer).Elem()
			env.vars[fv.Name()] = Val{"cell:" + ex.val(mc.Bindings[i]), GType{T: elem}}
		}
	}
	for _, r := range con.Req {
		goal, err := env.trBool(r.E)
		if err != nil {
			unsup("%s:%d: requires[%s] of %s: %v", r.File, r.Line, r.Label, shortKey(con.Key), err)
		}
		ex.addObl(fmt.Sprintf("pre@%s#%d", rec.short, rec.ord), r.Label, goal, ex.pcCur, r.Src, fmt.Sprintf("%s:%d", r.File, r.Line))
	}
	// havoc
	if con.ModAll {
		ex.havocEverything(st)
	} else {
		if !con.Inert {
			ex.allocAdvance(st)
		}
		for _, m := range con.Mod {
			var lvs []lvalue
			func() {
				defer func() {
					if r := recover(); r != nil {
						if se, ok := r.(specErr); ok {
							unsup("modifies of %s: %s", shortKey(con.Key), se.msg)
						}
						panic(r)
					}
				}()
				lvs = env.lvalues(m)
			}()
			for _, lv := range lvs {
				if lv.base == "" {
					g.havocComp(st, lv.comp)
					continue
				}
				cur := g.get(st, lv.comp)
				sortS := g.comps[lv.comp]
				// element sort of (Array Int X)
				es := strings.TrimSuffix(strings.TrimPrefix(sortS, "(Array Int "), ")")
				fv := g.freshConst("hv", es)
				if lv.ty != nil {
					if rf := g.rangeFact(lv.ty, fv); rf != "" {
						g.addFact(rf)
					}
					if af := g.allocFact(lv.ty, fv, g.get(st, "alloc"), 0); af != "" {
						g.addFact(af)
					}
				} else if ct, ok := g.compTy[lv.comp]; ok {
					switch ct.kind {
					case "A":
						if rf := g.rangeFact(ct.t, fmt.Sprintf("(select %s i)", fv)); rf != "" {
							g.addFact(fmt.Sprintf("(forall ((i Int)) (! %s :pattern ((select %s i))))", rf, fv))
						}
					case "MV":
						if rf := g.rangeFact(ct.t, fmt.Sprintf("(select %s k)", fv)); rf != "" {
							g.addFact(fmt.Sprintf("(forall ((k %s)) (! %s :pattern ((select %s k))))", g.sortOf(ct.key), rf, fv))
						}
					case "MH":
						if rf := g.rangeFact(ct.key, "k"); rf != "" {
							g.addFact(fmt.Sprintf("(forall ((k %s)) (! (=> (select %s k) %s) :pattern ((select %s k))))", g.sortOf(ct.key), fv, rf, fv))
						}
					}
				}
				g.set(st, lv.comp, fmt.Sprintf("(store %s %s %s)", cur, lv.base, fv))
			}
		}
	}
	// second pass: elems(X) entries are also havocked at the value X has after the field havoc (the callee
	// may have replaced the map/slice by a new one whose contents only its ensures describe)
	if !con.ModAll {
		envPost := *env
		envPost.st = st
		for _, m := range con.Mod {
			c, ok := m.(*ECall)
			if !ok {
				continue
			}
			if id, ok := c.Fun.(*EIdent); !ok || id.Name != "elems" {
				continue
			}
			var lvs []lvalue
			func() {
				defer func() {
					if r := recover(); r != nil {
						if se, ok := r.(specErr); ok {
							unsup("modifies of %s: %s", shortKey(con.Key), se.msg)
						}
						panic(r)
					}
				}()
				lvs = envPost.lvalues(m)
			}()
			for _, lv := range lvs {
				if lv.base == "" {
					continue // whole component: already havocked in the first pass
				}
				cur := g.get(st, lv.comp)
				sortS := g.comps[lv.comp]
				es := strings.TrimSuffix(strings.TrimPrefix(sortS, "(Array Int "), ")")
				fv := g.freshConst("hv", es)
				if ct, ok := g.compTy[lv.comp]; ok {
					switch ct.kind {
					case "A":
						if rf := g.rangeFact(ct.t, fmt.Sprintf("(select %s i)", fv)); rf != "" {
							g.addFact(fmt.Sprintf("(forall ((i Int)) (! %s :pattern ((select %s i))))", rf, fv))
						}
					case "MV":
						if rf := g.rangeFact(ct.t, fmt.Sprintf("(select %s k)", fv)); rf != "" {
							g.addFact(fmt.Sprintf("(forall ((k %s)) (! %s :pattern ((select %s k))))", g.sortOf(ct.key), rf, fv))
						}
					}
				}
				g.set(st, lv.comp, fmt.Sprintf("(store %s %s %s)", cur, lv.base, fv))
			}
		}
	}
	// results
	var results []string
	rn := resultNames(sig)
	post := map[string]Val{}
	for i, t := range resTypes {
		if sig.Results().Len() == 0 {
			break
		}
		r := ex.freshVal("r."+rec.short, t)
		results = append(results, r)
		post[rn[i]] = Val{r, GType{T: t}}
		post[fmt.Sprintf("result%d", i)] = Val{r, GType{T: t}}
		if len(resTypes) == 1 {
			post["result"] = Val{r, GType{T: t}}
		}
	}
	env2 := env.with(post)
	env2.st = st
	env2.old = pre
	for _, e := range con.Ens {
		t, err := env2.trBool(e.E)
		if err != nil {
			if strings.Contains(err.Error(), "callres:") || strings.Contains(err.Error(), "called:") {
				// clause about the callee's internal calls: meaningful only inside the callee; not assumed here
				continue
			}
			if !con.Trusted && con.Kind == "func" && strings.Contains(err.Error(), "unknown identifier") {
				// clause about the callee's local variables (#X, locals at the return): proved inside the callee (where an
				// unknown name is an error), not visible to callers; not assumed here
				continue
			}
			unsup("%s:%d: ensures[%s] of %s: %v", e.File, e.Line, e.Label, shortKey(con.Key), err)
		}
		g.assume(ex.pcCur, t)
	}
	if con.Trusted {
		g.note("trusted contract (assumed, body not checked): " + shortKey(con.Key))
	}
	return results
}

// callAsserts: `before/after call X#n` assertions of the current function's contract.
func (ex *Exec) callAsserts(st *State, rec *callRec, when string) {
	if ex.c == nil {
		return
	}
	for _, ca := range ex.c.Asserts {
		if ca.When != when || ca.Callee != rec.short || (ca.Ord != 0 && ca.Ord != rec.ord) {
			continue
		}
		if ex.assertHit == nil {
			ex.assertHit = map[*CallAssert]bool{}
		}
		ex.assertHit[ca] = true
		env := ex.funcEnv(st)
		// bind call arguments/results as $0.. / $r0..
		vars := map[string]Val{}
		cc := rec.instr.Common()
		var ats []types.Type
		if cc.IsInvoke() {
			ats = append(ats, cc.Value.Type())
		}
		for _, a := range cc.Args {
			ats = append(ats, a.Type())
		}
		for i, a := range rec.args {
			vars[fmt.Sprintf("$%d", i)] = Val{a, GType{T: ats[i]}}
		}
		if when == "after" {
			if v, ok := rec.instr.(ssa.Value); ok {
				if tt, isT := v.Type().(*types.Tuple); isT {
					for i := range rec.res {
						vars[fmt.Sprintf("$r%d", i)] = Val{rec.res[i], GType{T: tt.At(i).Type()}}
					}
				} else if len(rec.res) == 1 {
					vars["$r0"] = Val{rec.res[0], GType{T: v.Type()}}
				}
			}
		}
		env = env.with(vars)
		goal, err := env.trBool(ca.Clause.E)
		if err != nil {
			if isMissingCall(err) {
				// the clause names a call (callres/called) that does not exist in the body: it cannot be established
				ex.bindingFail("assert", ca.Clause.Label, ca.Clause.Src, err.Error(), fmt.Sprintf("%s:%d", ca.Clause.File, ca.Clause.Line))
				continue
			}
			unsup("%s:%d: %v", ca.Clause.File, ca.Clause.Line, err)
		}
		lbl := ca.Clause.Label
		if ca.Ord == 0 {
			lbl = fmt.Sprintf("%s#%d", lbl, rec.ord)
		}
		ex.addObl("assert", lbl, goal, ex.pcCur, ca.Clause.Src, fmt.Sprintf("%s:%d", ca.Clause.File, ca.Clause.Line))
	}
}

func (ex *Exec) funcEnv(st *State) *Env {
	pk := ex.g.pkgPath
	return &Env{g: ex.g, ex: ex, vars: map[string]Val{}, st: st, old: ex.entry, pkgPath: pk, fn: ex.fn}
}

// ---------- pure functions ----------

// applyPureClosure: a closure used as a pure function; bindings are the captured cell references.
func (ex *Exec) applyPureClosure(st *State, fn *ssa.Function, bindings []string, args []string) string {
	all := append(append([]string{}, args...), bindings...)
	return ex.applyPure(st, fn, ex.P.Contracts[funcKey(fn)], all)
}

func (ex *Exec) applyPure(st *State, fn *ssa.Function, con *Contract, args []string) string {
	return ex.applyPureN(st, fn, con, args)[0]
}

// applyPureN returns one term per result of the pure function.
func (ex *Exec) applyPureN(st *State, fn *ssa.Function, con *Contract, args []string) []string {
	pd := ex.g.pureDefFor(fn, con)
	var all []string
	all = append(all, args...)
	var out []string
	if pd.building {
		// recursive call inside own definition
		pd.rec = true
		for i := range pd.names {
			out = append(out, fmt.Sprintf("(%s %s %%%%HEAP:%s%%%%)", pd.names[i], strings.Join(args, " "), pd.name))
		}
		return out
	}
	for _, h := range pd.heapArgs {
		all = append(all, ex.compGet(st, h))
	}
	for i := range pd.names {
		if len(all) == 0 {
			out = append(out, pd.names[i])
		} else {
			out = append(out, fmt.Sprintf("(%s %s)", pd.names[i], strings.Join(all, " ")))
		}
	}
	return out
}

func (g *Gen) pureDefFor(fn *ssa.Function, con *Contract) *pureDef {
	key := funcKey(fn)
	if pd, ok := g.pure[key]; ok {
		return pd
	}
	pd := &pureDef{name: "|pure:" + shortKey(key) + "|", building: true}
	g.pure[key] = pd
	if fn.Blocks == nil {
		panic(unsupported{"pure function without body: " + key})
	}
	nres := fn.Signature.Results().Len()
	if nres < 1 {
		panic(unsupported{"pure function must have a result: " + key})
	}
	for i := 0; i < nres; i++ {
		if nres == 1 {
			pd.names = append(pd.names, pd.name)
		} else {
			pd.names = append(pd.names, fmt.Sprintf("|pure:%s#%d|", shortKey(key), i))
		}
		pd.retTs = append(pd.retTs, fn.Signature.Results().At(i).Type())
	}
	pd.retT = pd.retTs[0]
	ex := newExec(g, fn, con)
	ex.pureMode = true
	ex.selfName = pd.name
	var params []string
	for _, p := range fn.Params {
		n := "|pp:" + p.Name() + "|"
		ex.vals[p] = n
		params = append(params, fmt.Sprintf("(%s %s)", n, g.sortOf(p.Type())))
	}
	for _, fv := range fn.FreeVars {
		n := "|pf:" + fv.Name() + "|"
		ex.vals[fv] = n
		params = append(params, fmt.Sprintf("(%s Int)", n))
	}
	st := g.entryState()
	bodies := ex.pureBlock(fn.Blocks[0], nil, st, 0)
	pd.building = false
	for h := range ex.heapArgs {
		pd.heapArgs = append(pd.heapArgs, h)
	}
	sort.Strings(pd.heapArgs)
	var hp []string
	var hargs []string
	for _, h := range pd.heapArgs {
		hp = append(hp, fmt.Sprintf("(%s %s)", g.compSym(h, "e0"), g.comps[h]))
		hargs = append(hargs, g.compSym(h, "e0"))
	}
	kw := "define-fun"
	if pd.rec {
		kw = "define-fun-rec"
		if nres > 1 {
			panic(unsupported{"recursive pure function with several results: " + key})
		}
	}
	var texts []string
	for i, body := range bodies {
		body = strings.ReplaceAll(body, "%%HEAP:"+pd.name+"%%", strings.Join(hargs, " "))
		texts = append(texts, fmt.Sprintf("(%s %s (%s) %s %s)", kw, pd.names[i], strings.Join(append(append([]string{}, params...), hp...), " "), g.sortOf(pd.retTs[i]), body))
	}
	pd.text = strings.Join(texts, "\n")
	g.pureOrd = append(g.pureOrd, key)
	return pd
}

func (ex *Exec) pureBlock(b *ssa.BasicBlock, pred *ssa.BasicBlock, st *State, depth int) []string {
	if depth > 400 {
		unsup("pure function too deep / loops: %s", ex.fn.Name())
	}
	ex.curBlk = b
	for _, in := range b.Instrs {
		switch x := in.(type) {
		case *ssa.Phi:
			for i, p := range b.Preds {
				if p == pred {
					ex.vals[x] = ex.val(x.Edges[i])
				}
			}
		case *ssa.If:
			c := ex.val(x.Cond)
			t := ex.pureBlock(b.Succs[0], b, st.clone(), depth+1)
			e := ex.pureBlock(b.Succs[1], b, st.clone(), depth+1)
			var out []string
			for i := range t {
				out = append(out, fmt.Sprintf("(ite %s %s %s)", c, t[i], e[i]))
			}
			return out
		case *ssa.Jump:
			return ex.pureBlock(b.Succs[0], b, st, depth+1)
		case *ssa.Return:
			var out []string
			for _, r := range x.Results {
				out = append(out, ex.val(r))
			}
			return out
		case *ssa.Panic:
			var out []string
			for i := 0; i < ex.fn.Signature.Results().Len(); i++ {
				out = append(out, ex.g.zero(ex.fn.Signature.Results().At(i).Type()))
			}
			return out
		default:
			ex.step(st, in)
		}
	}
	unsup("block without terminator")
	return nil
}

func isMissingCall(err error) bool {
	s := err.Error()
	return strings.Contains(s, "no call ") && strings.Contains(s, " on record")
}

// bindingFail: a contract clause refers to a call site that the function body does not (any longer) contain. The clause
// cannot be established on this code, which is reported as a failed obligation under the clause's own name
// (goal false) rather than as an engine error.
func (ex *Exec) bindingFail(kind, label, src, why, where string) {
	g := ex.g
	g.obls = append(g.obls, &Obligation{Name: fmt.Sprintf("%s/%s/%s", g.curFunc, kind, label), Func: g.curFunc, Kind: kind, Label: label,
		Goal: "false", PC: "true", NFacts: 0, Src: src + "   [clause does not bind to the code: " + why + "]", Where: where, g: g, Expect: "unsat", Props: ex.c.Props})
}
