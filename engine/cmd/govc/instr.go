package main

import (
	"fmt"
	"math/big"
	"go/token"
	"go/types"
	"strings"

	"golang.org/x/tools/go/ssa"
)

func (ex *Exec) setVal(v ssa.Value, term string) {
	t := v.Type()
	if ex.pureMode {
		ex.vals[v] = term
		return
	}
	// name it to keep terms small and models readable
	n := ex.g.freshConst(ex.fn.Name()+"."+v.Name(), ex.g.sortOf(t))
	ex.g.addFact(fmt.Sprintf("(= %s %s)", n, term))
	ex.vals[v] = n
}

func (ex *Exec) safetyOb(kind, label, goal string) {
	if !ex.safety || ex.pureMode {
		return
	}
	ex.addObl("safety", fmt.Sprintf("%s@%s", kind, label), goal, ex.pcCur, "", "")
}

func (ex *Exec) instrLabel(in ssa.Instruction) string {
	// stable-ish label: block comment + ordinal of this kind in function is overkill; use value name
	if v, ok := in.(ssa.Value); ok {
		return v.Name()
	}
	return fmt.Sprintf("b%d", in.Block().Index)
}

func (ex *Exec) step(st *State, in ssa.Instruction) {
	g := ex.g
	switch x := in.(type) {
	case *ssa.DebugRef:
		return
	case *ssa.Alloc:
		elem := x.Type().(*types.Pointer).Elem()
		if ex.localOK[x] {
			id := "|" + ex.fn.Name() + "." + x.Name() + "|"
			st.locals[id] = g.zero(elem)
			ex.addrs[x] = &Addr{kind: akLocal, local: id, rootT: elem, ty: elem}
			return
		}
		if at, isArr := elem.Underlying().(*types.Array); isArr {
			r := ex.newRef(st, "arr")
			c := g.arrComp(at.Elem())
			g.set(st, c, fmt.Sprintf("(store %s %s %s)", g.get(st, c), r, g.zero(elem)))
			ex.vals[x] = r
			return
		}
		r := ex.newRef(st, "new")
		ex.vals[x] = r
		if _, isSt := elem.Underlying().(*types.Struct); isSt {
			ex.storeStruct(st, elem, r, g.zero(elem))
		} else {
			c := g.cellComp(elem)
			g.set(st, c, fmt.Sprintf("(store %s %s %s)", g.get(st, c), r, g.zero(elem)))
		}
	case *ssa.Store:
		a := ex.addrOf(x.Addr)
		ex.nilCheck(x.Addr, a, "store")
		ex.store(st, a, ex.val(x.Val))
	case *ssa.UnOp:
		ex.unop(st, x)
	case *ssa.BinOp:
		if ex.safety && (x.Op == token.QUO || x.Op == token.REM) {
			if _, _, ok := intInfo(x.X.Type()); ok {
				ex.safetyOb("div-by-zero", x.Name(), fmt.Sprintf("(not (= %s %s))", ex.val(x.Y), g.zero(x.Y.Type())))
			}
		}
		ex.setVal(x, ex.binop(x.Op, x.X.Type(), ex.val(x.X), ex.val(x.Y), x.Y.Type()))
	case *ssa.FieldAddr:
		a, ref := ex.fieldAddr(x.X, x.Field)
		if a != nil {
			ex.addrs[x] = a
		} else {
			ex.vals[x] = ref
		}
	case *ssa.Field:
		ex.setVal(x, g.fieldSel(x.X.Type(), x.Field, ex.val(x.X)))
	case *ssa.IndexAddr:
		ex.indexAddr(st, x)
	case *ssa.Index:
		switch xt := x.X.Type().Underlying().(type) {
		case *types.Array:
			ex.setVal(x, fmt.Sprintf("(select %s %s)", ex.val(x.X), ex.toMathInt(ex.val(x.Index), x.Index.Type())))
		case *types.Basic: // string
			_ = xt
			g.needByteAt()
			idx := ex.toMathInt(ex.val(x.Index), x.Index.Type())
			ex.safetyOb("index", x.Name(), fmt.Sprintf("(and (>= %s 0) (< %s (st.len %s)))", idx, idx, ex.val(x.X)))
			ex.setVal(x, ex.byteVal(fmt.Sprintf("(st.at %s %s)", ex.val(x.X), idx)))
		default:
			unsup("index on %s", x.X.Type())
		}
	case *ssa.Lookup:
		ex.lookup(st, x)
	case *ssa.MakeMap:
		mt := x.Type().Underlying().(*types.Map)
		r := ex.newRef(st, "map")
		has, _, ln := g.mapComps(mt)
		g.set(st, has, fmt.Sprintf("(store %s %s ((as const (Array %s Bool)) false))", g.get(st, has), r, g.sortOf(mt.Key())))
		g.set(st, ln, fmt.Sprintf("(store %s %s 0)", g.get(st, ln), r))
		ex.vals[x] = r
	case *ssa.MapUpdate:
		ex.mapUpdate(st, x)
	case *ssa.MakeSlice:
		et := x.Type().Underlying().(*types.Slice).Elem()
		r := ex.newRef(st, "arr")
		c := g.arrComp(et)
		g.set(st, c, fmt.Sprintf("(store %s %s %s)", g.get(st, c), r, g.constArray("Int", g.sortOf(et), g.zero(et))))
		ln := ex.toMathInt(ex.val(x.Len), x.Len.Type())
		cp := ex.toMathInt(ex.val(x.Cap), x.Cap.Type())
		ex.safetyOb("makeslice", x.Name(), fmt.Sprintf("(and (>= %s 0) (>= %s %s))", ln, cp, ln))
		ex.setVal(x, fmt.Sprintf("(mk-slice %s 0 %s %s)", r, ln, cp))
	case *ssa.Slice:
		ex.sliceOp(st, x)
	case *ssa.MakeInterface:
		ex.setVal(x, ex.makeIface(x.X.Type(), ex.val(x.X)))
	case *ssa.ChangeInterface:
		ex.vals[x] = ex.val(x.X)
	case *ssa.ChangeType:
		ex.vals[x] = ex.val(x.X)
		if a, ok := ex.addrs[x.X]; ok {
			ex.addrs[x] = a
		}
	case *ssa.Convert:
		ex.curState = st
		ex.setVal(x, ex.convert(x.X.Type(), x.Type(), ex.val(x.X)))
		ex.curState = nil
	case *ssa.MultiConvert:
		unsup("multiconvert")
	case *ssa.SliceToArrayPointer:
		unsup("slice to array pointer")
	case *ssa.TypeAssert:
		ex.typeAssert(st, x)
	case *ssa.Extract:
		tup, ok := ex.tuples[x.Tuple]
		if !ok {
			unsup("extract from unknown tuple %s", x.Tuple.Name())
		}
		ex.vals[x] = tup[x.Index]
	case *ssa.MakeClosure:
		r := ex.newRef(st, "closure")
		ex.vals[x] = r
		ex.closures[x] = x
	case *ssa.Range:
		ex.rangeStart(st, x)
	case *ssa.Next:
		ex.rangeNext(st, x)
	case *ssa.Call:
		ex.call(st, x)
	case *ssa.Defer:
		ex.deferred = append(ex.deferred, x)
	case *ssa.RunDefers:
		ex.runDefers(st)
	case *ssa.Go:
		ex.g.note("goroutine creation in " + shortKey(funcKey(ex.fn)) + ": everything reachable havocked")
		ex.havocEverything(st)
	case *ssa.Send:
		ex.g.note("channel send abstracted (no effect modelled)")
	case *ssa.Select:
		ex.g.note("select abstracted: arbitrary branch, arbitrary received values; no heap effect (sequential model)")
		var res []string
		tt := x.Type().(*types.Tuple)
		for i := 0; i < tt.Len(); i++ {
			res = append(res, ex.freshVal("sel", tt.At(i).Type()))
		}
		ex.tuples[x] = res
	case *ssa.MakeChan:
		ex.vals[x] = ex.newRef(st, "chan")
	case *ssa.Panic:
		// handled as terminator
	case *ssa.If, *ssa.Jump, *ssa.Return:
		// terminators handled by drivers
	case *ssa.Phi:
		// handled by drivers
	default:
		unsup("instruction %T", in)
	}
}

func (g *Gen) needByteAt() {
	g.decl("fn:st.at", "(declare-fun st.at (Str Int) Int)")
	g.decl("ax:st.at", "(assert (forall ((s Str) (i Int)) (! (and (>= (st.at s i) 0) (< (st.at s i) 256)) :pattern ((st.at s i)))))")
}

func (ex *Exec) byteVal(intTerm string) string {
	if ex.g.mode == "bv" {
		return fmt.Sprintf("((_ int2bv 8) %s)", intTerm)
	}
	return intTerm
}

func (ex *Exec) nilCheck(v ssa.Value, a *Addr, what string) {
	if !ex.safety || ex.pureMode {
		return
	}
	if a.kind == akLocal {
		return
	}
	if a.kind == akElem && a.comp != "" {
		return // bounds checked at IndexAddr
	}
	if _, isAlloc := v.(*ssa.Alloc); isAlloc {
		return
	}
	if _, isGlobal := v.(*ssa.Global); isGlobal {
		return
	}
	ex.safetyOb("nil-deref", v.Name(), fmt.Sprintf("(not (= %s 0))", a.base))
}

func (ex *Exec) unop(st *State, x *ssa.UnOp) {
	g := ex.g
	switch x.Op {
	case token.MUL:
		a := ex.addrOf(x.X)
		ex.nilCheck(x.X, a, "load")
		v := ex.load(st, a)
		ex.setVal(x, v)
		if !ex.pureMode && a.kind != akLocal {
			if rf := g.rangeFact(x.Type(), ex.vals[x]); rf != "" {
				g.assume(ex.pcCur, rf)
			}
			ex.assumeTypeAlloc(st, ex.pcCur, x.Type(), ex.vals[x])
		}
	case token.NOT:
		ex.setVal(x, fmt.Sprintf("(not %s)", ex.val(x.X)))
	case token.SUB:
		if g.mode == "bv" {
			ex.setVal(x, fmt.Sprintf("(bvneg %s)", ex.val(x.X)))
		} else {
			bits, signed, ok := intInfo(x.X.Type())
			if ok && !signed {
				ex.setVal(x, fmt.Sprintf("(mod (- %s) %s)", ex.val(x.X), pow2(bits).String()))
			} else {
				ex.setVal(x, fmt.Sprintf("(- %s)", ex.val(x.X)))
			}
		}
	case token.XOR:
		if g.mode == "bv" {
			ex.setVal(x, fmt.Sprintf("(bvnot %s)", ex.val(x.X)))
		} else {
			bits, signed, _ := intInfo(x.X.Type())
			if signed {
				ex.setVal(x, fmt.Sprintf("(- (- %s) 1)", ex.val(x.X)))
			} else {
				ex.setVal(x, fmt.Sprintf("(- %s %s)", new(big.Int).Sub(pow2(bits), big.NewInt(1)).String(), ex.val(x.X)))
			}
		}
	case token.ARROW:
		g.note("channel receive abstracted: arbitrary value; no heap effect (sequential model)")
		if tt, ok := x.Type().(*types.Tuple); ok {
			var res []string
			for i := 0; i < tt.Len(); i++ {
				res = append(res, ex.freshVal("recv", tt.At(i).Type()))
			}
			ex.tuples[x] = res
		} else {
			ex.vals[x] = ex.freshVal("recv", x.Type())
		}
	default:
		unsup("unop %s", x.Op)
	}
}

func (ex *Exec) indexAddr(st *State, x *ssa.IndexAddr) {
	g := ex.g
	idx := ex.toMathInt(ex.val(x.Index), x.Index.Type())
	switch xt := x.X.Type().Underlying().(type) {
	case *types.Slice:
		s := ex.val(x.X)
		ex.safetyOb("index", x.Name(), fmt.Sprintf("(and (>= %s 0) (< %s (s.len %s)))", idx, idx, s))
		ex.addrs[x] = &Addr{kind: akElem, comp: g.arrComp(xt.Elem()), base: fmt.Sprintf("(s.arr %s)", s), idx: fmt.Sprintf("(sl.ix %s %s)", s, idx), rootT: xt.Elem(), ty: xt.Elem()}
	case *types.Pointer:
		at := xt.Elem().Underlying().(*types.Array)
		ex.safetyOb("index", x.Name(), fmt.Sprintf("(and (>= %s 0) (< %s %d))", idx, idx, at.Len()))
		if a, ok := ex.addrs[x.X]; ok {
			na := *a
			na.path = append(append([]pstep{}, a.path...), pstep{isIdx: true, idx: idx, elemT: at.Elem()})
			na.ty = at.Elem()
			ex.addrs[x] = &na
			return
		}
		ex.addrs[x] = &Addr{kind: akElem, comp: g.arrComp(at.Elem()), base: ex.val(x.X), idx: idx, rootT: at.Elem(), ty: at.Elem()}
	default:
		unsup("indexaddr on %s", x.X.Type())
	}
}

func (ex *Exec) mapTerms(st *State, m string, mt *types.Map) (hasArr, valArr, ln string) {
	has, val, l := ex.g.mapComps(mt)
	return fmt.Sprintf("(select %s %s)", ex.compGet(st, has), m), fmt.Sprintf("(select %s %s)", ex.compGet(st, val), m), fmt.Sprintf("(select %s %s)", ex.compGet(st, l), m)
}

func (ex *Exec) lookup(st *State, x *ssa.Lookup) {
	g := ex.g
	mt, isMap := x.X.Type().Underlying().(*types.Map)
	if !isMap {
		// string index
		g.needByteAt()
		idx := ex.toMathInt(ex.val(x.Index), x.Index.Type())
		ex.safetyOb("index", x.Name(), fmt.Sprintf("(and (>= %s 0) (< %s (st.len %s)))", idx, idx, ex.val(x.X)))
		ex.setVal(x, ex.byteVal(fmt.Sprintf("(st.at %s %s)", ex.val(x.X), idx)))
		return
	}
	m := ex.val(x.X)
	k := ex.val(x.Index)
	hasA, valA, _ := ex.mapTerms(st, m, mt)
	has := fmt.Sprintf("(and (not (= %s 0)) (select %s %s))", m, hasA, k)
	v := fmt.Sprintf("(ite %s (select %s %s) %s)", has, valA, k, g.zero(mt.Elem()))
	if x.CommaOk {
		vn := ex.bind(ex.fn.Name()+"."+x.Name()+".v", g.sortOf(mt.Elem()), v)
		hn := ex.bind(ex.fn.Name()+"."+x.Name()+".ok", "Bool", has)
		ex.tuples[x] = []string{vn, hn}
		ex.postLoadFacts(st, mt.Elem(), vn)
	} else {
		ex.setVal(x, v)
		ex.postLoadFacts(st, mt.Elem(), ex.vals[x])
	}
}

func (ex *Exec) postLoadFacts(st *State, t types.Type, term string) {
	if ex.pureMode {
		return
	}
	if rf := ex.g.rangeFact(t, term); rf != "" {
		ex.g.assume(ex.pcCur, rf)
	}
	ex.assumeTypeAlloc(st, ex.pcCur, t, term)
}

func (ex *Exec) mapUpdate(st *State, x *ssa.MapUpdate) {
	g := ex.g
	mt := x.Map.Type().Underlying().(*types.Map)
	m := ex.val(x.Map)
	k := ex.val(x.Key)
	v := ex.val(x.Value)
	ex.safetyOb("nil-map-write", ex.instrLabelMap(x), fmt.Sprintf("(not (= %s 0))", m))
	has, val, ln := g.mapComps(mt)
	oh, ov, ol := g.get(st, has), g.get(st, val), g.get(st, ln)
	g.set(st, ln, fmt.Sprintf("(store %s %s (ite (select (select %s %s) %s) (select %s %s) (+ (select %s %s) 1)))", ol, m, oh, m, k, ol, m, ol, m))
	g.set(st, has, fmt.Sprintf("(store %s %s (store (select %s %s) %s true))", oh, m, oh, m, k))
	g.set(st, val, fmt.Sprintf("(store %s %s (store (select %s %s) %s %s))", ov, m, ov, m, k, v))
}

func (ex *Exec) instrLabelMap(x *ssa.MapUpdate) string {
	return fmt.Sprintf("%s", x.Map.Name())
}

func (ex *Exec) mapDelete(st *State, mt *types.Map, m, k string) {
	g := ex.g
	has, _, ln := g.mapComps(mt)
	oh, ol := g.get(st, has), g.get(st, ln)
	g.set(st, ln, fmt.Sprintf("(ite (= %s 0) %s (store %s %s (ite (select (select %s %s) %s) (- (select %s %s) 1) (select %s %s))))", m, ol, ol, m, oh, m, k, ol, m, ol, m))
	g.set(st, has, fmt.Sprintf("(ite (= %s 0) %s (store %s %s (store (select %s %s) %s false)))", m, oh, oh, m, oh, m, k))
}

func (ex *Exec) sliceOp(st *State, x *ssa.Slice) {
	g := ex.g
	getIdx := func(v ssa.Value, def string) string {
		if v == nil {
			return def
		}
		return ex.toMathInt(ex.val(v), v.Type())
	}
	switch xt := x.X.Type().Underlying().(type) {
	case *types.Slice:
		s := ex.val(x.X)
		lo := getIdx(x.Low, "0")
		hi := getIdx(x.High, fmt.Sprintf("(s.len %s)", s))
		mx := getIdx(x.Max, fmt.Sprintf("(s.cap %s)", s))
		ex.safetyOb("slice-bounds", x.Name(), fmt.Sprintf("(and (<= 0 %s) (<= %s %s) (<= %s %s) (<= %s (s.cap %s)))", lo, lo, hi, hi, mx, mx, s))
		ex.setVal(x, fmt.Sprintf("(mk-slice (s.arr %s) (+ (s.off %s) %s) (- %s %s) (- %s %s))", s, s, lo, hi, lo, mx, lo))
	case *types.Basic: // string
		g.needSubstr()
		s := ex.val(x.X)
		lo := getIdx(x.Low, "0")
		hi := getIdx(x.High, fmt.Sprintf("(st.len %s)", s))
		ex.safetyOb("slice-bounds", x.Name(), fmt.Sprintf("(and (<= 0 %s) (<= %s %s) (<= %s (st.len %s)))", lo, lo, hi, hi, s))
		ex.setVal(x, fmt.Sprintf("(st.sub %s %s %s)", s, lo, hi))
	case *types.Pointer:
		at := xt.Elem().Underlying().(*types.Array)
		if _, ok := ex.addrs[x.X]; ok {
			unsup("slice of interior array")
		}
		r := ex.val(x.X)
		n := fmt.Sprint(at.Len())
		lo := getIdx(x.Low, "0")
		hi := getIdx(x.High, n)
		mx := getIdx(x.Max, n)
		ex.safetyOb("slice-bounds", x.Name(), fmt.Sprintf("(and (<= 0 %s) (<= %s %s) (<= %s %s) (<= %s %s))", lo, lo, hi, hi, mx, mx, n))
		ex.setVal(x, fmt.Sprintf("(mk-slice %s %s (- %s %s) (- %s %s))", r, lo, hi, lo, mx, lo))
	default:
		unsup("slice of %s", x.X.Type())
	}
}

func (g *Gen) needSubstr() {
	g.decl("fn:st.sub", "(declare-fun st.sub (Str Int Int) Str)")
	g.decl("ax:st.sub", "(assert (forall ((s Str) (a Int) (b Int)) (! (=> (and (<= 0 a) (<= a b) (<= b (st.len s))) (= (st.len (st.sub s a b)) (- b a))) :pattern ((st.sub s a b)))))")
	g.decl("ax:st.sub2", "(assert (forall ((s Str)) (! (= (st.sub s 0 (st.len s)) s) :pattern ((st.len s)))))")
}

// ---------- interfaces ----------

func (g *Gen) typeTag(t types.Type) int {
	k := "T:" + mangleType(t)
	if n, ok := g.typeTags[k]; ok {
		return n
	}
	n := len(g.typeTags) + 1
	g.typeTags[k] = n
	return n
}

func (ex *Exec) makeIface(t types.Type, v string) string {
	g := ex.g
	if _, isIface := t.Underlying().(*types.Interface); isIface {
		return v
	}
	tag := g.typeTag(t)
	switch t.Underlying().(type) {
	case *types.Pointer, *types.Map, *types.Chan, *types.Signature:
		// a nil pointer in an interface is a non-nil interface: tag != 0
		return fmt.Sprintf("(mk-iface %d %s)", tag, v)
	}
	box, unbox := g.boxFns(t)
	_ = unbox
	return fmt.Sprintf("(mk-iface %d (%s %s))", tag, box, v)
}

func (g *Gen) boxFns(t types.Type) (box, unbox string) {
	m := mangleType(t)
	box, unbox = "|box:"+m+"|", "|unbox:"+m+"|"
	if !g.declared["fn:"+box] {
		g.declared["fn:"+box] = true
		s := g.sortOf(t)
		g.decls = append(g.decls, fmt.Sprintf("(declare-fun %s (%s) Int)", box, s), fmt.Sprintf("(declare-fun %s (Int) %s)", unbox, s))
		g.decls = append(g.decls, fmt.Sprintf("(assert (forall ((v %s)) (! (= (%s (%s v)) v) :pattern ((%s v)))))", s, unbox, box, box))
	}
	return
}

func (ex *Exec) unboxIface(t types.Type, iv string) string {
	switch t.Underlying().(type) {
	case *types.Pointer, *types.Map, *types.Chan, *types.Signature:
		return fmt.Sprintf("(i.val %s)", iv)
	case *types.Interface:
		return iv
	}
	_, unbox := ex.g.boxFns(t)
	return fmt.Sprintf("(%s (i.val %s))", unbox, iv)
}

func (ex *Exec) typeAssert(st *State, x *ssa.TypeAssert) {
	g := ex.g
	iv := ex.val(x.X)
	var ok string
	if _, isIface := x.AssertedType.Underlying().(*types.Interface); isIface {
		// interface-to-interface: holds iff dynamic type implements; abstract as uninterpreted predicate on tag (nil fails)
		fn := "|implements:" + mangleType(x.AssertedType) + "|"
		g.decl("fn:"+fn, fmt.Sprintf("(declare-fun %s (Int) Bool)", fn))
		ok = fmt.Sprintf("(and (not (= (i.tag %s) 0)) (%s (i.tag %s)))", iv, fn, iv)
	} else {
		ok = fmt.Sprintf("(= (i.tag %s) %d)", iv, g.typeTag(x.AssertedType))
	}
	v := ex.unboxIface(x.AssertedType, iv)
	if x.CommaOk {
		okn := ex.bind(ex.fn.Name()+"."+x.Name()+".ok", "Bool", ok)
		vn := ex.bind(ex.fn.Name()+"."+x.Name()+".v", g.sortOf(x.AssertedType), fmt.Sprintf("(ite %s %s %s)", okn, v, g.zero(x.AssertedType)))
		ex.tuples[x] = []string{vn, okn}
		ex.postLoadFacts(st, x.AssertedType, vn)
		return
	}
	ex.safetyOb("type-assert", x.Name(), ok)
	if !ex.pureMode {
		g.assume(ex.pcCur, ok)
	}
	ex.setVal(x, v)
	ex.postLoadFacts(st, x.AssertedType, ex.vals[x])
}

// ---------- range over map ----------

func (ex *Exec) rangeStart(st *State, x *ssa.Range) {
	g := ex.g
	ri := &rangeInfo{r: x}
	ex.ranges[x] = ri
	mt, isMap := x.X.Type().Underlying().(*types.Map)
	if !isMap {
		ri.isMap = false
		return
	}
	if ex.pureMode {
		unsup("map range in pure function")
	}
	ri.isMap = true
	ri.mt = mt
	ri.mapRef = ex.val(x.X)
	hasA, _, _ := ex.mapTerms(st, ri.mapRef, mt)
	ks := g.sortOf(mt.Key())
	ri.has0 = ex.bind(ex.fn.Name()+"."+x.Name()+".keys0", fmt.Sprintf("(Array %s Bool)", ks), fmt.Sprintf("(ite (= %s 0) ((as const (Array %s Bool)) false) %s)", ri.mapRef, ks, hasA))
	ri.visited = "|" + ex.fn.Name() + "." + x.Name() + ".visited|"
	st.locals[ri.visited] = fmt.Sprintf("((as const (Array %s Bool)) false)", ks)
	ex.vals[x] = "0"
}

func (ex *Exec) rangeNext(st *State, x *ssa.Next) {
	g := ex.g
	ri := ex.ranges[x.Iter]
	if ri == nil || !ri.isMap {
		// string range: arbitrary
		g.note("range over string abstracted: arbitrary iteration")
		tt := x.Type().(*types.Tuple)
		var res []string
		for i := 0; i < tt.Len(); i++ {
			res = append(res, ex.freshVal("next", tt.At(i).Type()))
		}
		ex.tuples[x] = res
		return
	}
	mt := ri.mt
	ks := g.sortOf(mt.Key())
	ok := g.freshConst(ex.fn.Name()+"."+x.Name()+".ok", "Bool")
	k := ex.freshVal(ex.fn.Name()+"."+x.Name()+".k", mt.Key())
	v := ex.freshVal(ex.fn.Name()+"."+x.Name()+".v", mt.Elem())
	hasA, valA, _ := ex.mapTerms(st, ri.mapRef, mt)
	vis := st.locals[ri.visited]
	pc := ex.pcCur
	g.assume(pc, fmt.Sprintf("(=> %s (and (not (= %s 0)) (select %s %s) (not (select %s %s)) (= %s (select %s %s))))", ok, ri.mapRef, hasA, k, vis, k, v, valA, k))
	g.assume(pc, fmt.Sprintf("(=> (not %s) (forall ((k %s)) (! (=> (and (not (= %s 0)) (select %s k) (select %s k)) (select %s k)) :pattern ((select %s k)) :pattern ((select %s k)))))", ok, ks, ri.mapRef, ri.has0, hasA, vis, vis, hasA))
	nv := g.freshConst(strings.Trim(ri.visited, "|"), fmt.Sprintf("(Array %s Bool)", ks))
	g.addFact(fmt.Sprintf("(= %s (ite %s (store %s %s true) %s))", nv, ok, vis, k, vis))
	st.locals[ri.visited] = nv
	ex.tuples[x] = []string{ok, k, v}
	ex.postLoadFacts(st, mt.Elem(), v)
}

func (ex *Exec) havocEverything(st *State) {
	if ex.pureMode {
		unsup("havoc in pure function")
	}
	// the allocation set only grows: remember the pre-havoc set and state alloc@pre ⊆ alloc@post
	g := ex.g
	g.allocComp()
	before := g.get(st, "alloc")
	g.havocAll(st)
	g.addFact(fmt.Sprintf("(forall ((r Int)) (! (=> (select %s r) (select %s r)) :pattern ((select %s r))))", before, g.get(st, "alloc"), before))
}

func (ex *Exec) runDefers(st *State) {
	for i := len(ex.deferred) - 1; i >= 0; i-- {
		d := ex.deferred[i]
		name := calleeShortName(d.Common())
		if isIgnorableDefer(name) {
			continue
		}
		// a call deferred unconditionally in the entry block runs at every return: treat it as an ordinary
		// call here (contract applied if the callee / closure has one; otherwise the usual rules)
		if d.Block() == ex.fn.Blocks[0] {
			var rt types.Type = d.Common().Signature().Results()
			if d.Common().Signature().Results().Len() == 1 {
				rt = d.Common().Signature().Results().At(0).Type()
			}
			ex.callCommon(st, d, d.Common(), rt)
			continue
		}
		// conditional defer: havoc everything (sound), note it
		ex.g.note("deferred call " + name + " in " + shortKey(funcKey(ex.fn)) + " (registered conditionally) abstracted: heap havocked at return")
		ex.havocEverything(st)
	}
}

func isIgnorableDefer(name string) bool {
	for _, s := range []string{"Unlock", "RUnlock", "Done", "Stop", "cancel", "FatalPanicHandler", "End"} {
		if name == s || strings.HasSuffix(name, "."+s) {
			return true
		}
	}
	return false
}

