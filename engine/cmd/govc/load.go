package main

import (
	"fmt"
	"go/types"
	"os"
	"path/filepath"
	"sort"
	"strings"

	"golang.org/x/tools/go/packages"
	"golang.org/x/tools/go/ssa"
	"golang.org/x/tools/go/ssa/ssautil"
)

const modPath = "github.com/couchbase/sync_gateway"

type Program struct {
	Repo      string
	Pkgs      []*packages.Package
	Prog      *ssa.Program
	SSAPkgs   map[string]*ssa.Package // by import path
	Funcs     map[string]*ssa.Function // canonical key -> function (repo packages only)
	Contracts map[string]*Contract     // key -> contract
	Ordered   []*Contract
	Ghosts    map[string]*Contract // "pkgpath.Type.name"
	GhostVars map[string]*Contract
	Preds     map[string]*Contract // name -> pred/fn (name unique across packages)
	Lemmas    []*Contract
	Axioms    []*Contract
	LoadErrs  []string
	FileErrs  map[string]string // contract file -> error (file skipped)
	roMemo    map[*ssa.Function]int
	NoAssume  map[string]bool
}

func goEnv() []string {
	env := os.Environ()
	env = append(env, "GOFLAGS=-mod=mod", "GOPROXY=off", "GOSUMDB=off", "GOTOOLCHAIN=local")
	// make sure go1.26.8 is first on PATH
	for i, e := range env {
		if strings.HasPrefix(e, "PATH=") {
			env[i] = "PATH=/opt/veriftools/go1.26.8/bin:" + strings.TrimPrefix(e, "PATH=")
		}
	}
	return env
}

func loadProgram(repo string, pkgDirs []string, trustedDir string) (*Program, error) {
	var patterns []string
	for _, d := range pkgDirs {
		patterns = append(patterns, "./"+d)
	}
	cfg := &packages.Config{
		Mode:       packages.LoadSyntax,
		Dir:        repo,
		BuildFlags: []string{"-tags=verif"},
		Env:        goEnv(),
	}
	pkgs, err := packages.Load(cfg, patterns...)
	if err != nil {
		return nil, err
	}
	P := &Program{Repo: repo, Pkgs: pkgs, SSAPkgs: map[string]*ssa.Package{}, Funcs: map[string]*ssa.Function{},
		FileErrs: map[string]string{}, Contracts: map[string]*Contract{}, Ghosts: map[string]*Contract{}, GhostVars: map[string]*Contract{}, Preds: map[string]*Contract{}}
	for _, p := range pkgs {
		for _, e := range p.Errors {
			P.LoadErrs = append(P.LoadErrs, e.Error())
		}
	}
	if len(P.LoadErrs) > 0 {
		return P, fmt.Errorf("package load errors: %s", strings.Join(P.LoadErrs, "; "))
	}
	prog, spkgs := ssautil.Packages(pkgs, ssa.InstantiateGenerics|ssa.GlobalDebug)
	P.Prog = prog
	for i, sp := range spkgs {
		if sp == nil {
			return P, fmt.Errorf("no SSA for %s", pkgs[i].PkgPath)
		}
		sp.Build()
		P.SSAPkgs[sp.Pkg.Path()] = sp
		P.indexFuncs(sp)
	}
	// contracts in repo
	for i, d := range pkgDirs {
		files, _ := filepath.Glob(filepath.Join(repo, d, "zz_verif_*.go"))
		sort.Strings(files)
		for _, f := range files {
			cs, err := parseContractFile(f, pkgs[i].PkgPath)
			if err != nil {
				P.FileErrs[f] = err.Error()
				continue
			}
			if err := P.addContracts(cs); err != nil {
				P.FileErrs[f] = err.Error()
			}
		}
	}
	// callee results that a contract declares fresh count as fresh roots in the syntactic analyses
	freshCalleeHook = func(c *ssa.CallCommon) bool {
		var key string
		if c.IsInvoke() {
			key = methodKey(c.Method)
		} else if f, ok := c.Value.(*ssa.Function); ok {
			key = funcKey(f)
		}
		con := P.Contracts[key]
		if con == nil {
			return false
		}
		for _, e := range con.Ens {
			if strings.Contains(e.Src, "allocated(now(result") {
				return true
			}
		}
		return false
	}
	// trusted externs
	if trustedDir != "" {
		files, _ := filepath.Glob(filepath.Join(trustedDir, "*.spec"))
		sort.Strings(files)
		for _, f := range files {
			cs, err := parseContractFile(f, "")
			if err != nil {
				// a broken spec file is skipped and recorded: fatal only for the property whose id is in its file name
				// (its contracts then miss their externs), never for the others
				P.FileErrs[f] = err.Error()
				continue
			}
			for _, c := range cs {
				c.Trusted = true
			}
			if err := P.addContracts(cs); err != nil {
				P.FileErrs[f] = err.Error()
			}
		}
	}
	return P, nil
}

func (P *Program) addContracts(cs []*Contract) error {
	for _, c := range cs {
		switch c.Kind {
		case "func":
			if old, dup := P.Contracts[c.Key]; dup {
				P.FileErrs[c.File] = fmt.Sprintf("%s:%d: duplicate contract for %s (also %s:%d); the later one is ignored", c.File, c.Line, c.Key, old.File, old.Line)
				continue
			}
			P.Contracts[c.Key] = c
		case "ghost":
			P.Ghosts[c.Pkg+"."+c.Recv+"."+c.Name] = c
		case "ghostvar":
			P.GhostVars[c.Name] = c
		case "pred", "fn":
			if _, dup := P.Preds[c.Name]; dup {
				P.FileErrs[c.File] = fmt.Sprintf("%s:%d: duplicate pred %s; the later one is ignored", c.File, c.Line, c.Name)
				continue
			}
			P.Preds[c.Name] = c
		case "lemma":
			P.Lemmas = append(P.Lemmas, c)
		case "axiom":
			P.Axioms = append(P.Axioms, c)
		}
		P.Ordered = append(P.Ordered, c)
	}
	return nil
}

// funcKey gives the canonical key of a function: pkgpath.Name, pkgpath.Recv.Name, with $n for closures.
func funcKey(f *ssa.Function) string {
	if f == nil {
		return "?"
	}
	if f.Parent() != nil {
		// closure: parent key + $ordinal
		par := f.Parent()
		for i, af := range par.AnonFuncs {
			if af == f {
				return fmt.Sprintf("%s$%d", funcKey(par), i+1)
			}
		}
		return funcKey(par) + "$?"
	}
	if o := f.Origin(); o != nil && o != f {
		// instantiated generic: use origin key plus type args
		var ta []string
		for _, t := range f.TypeArgs() {
			ta = append(ta, types.TypeString(t, func(p *types.Package) string { return p.Name() }))
		}
		return funcKey(o) + "[" + strings.Join(ta, ",") + "]"
	}
	pkgPath := ""
	if f.Pkg != nil {
		pkgPath = f.Pkg.Pkg.Path()
	} else if f.Object() != nil && f.Object().Pkg() != nil {
		pkgPath = f.Object().Pkg().Path()
	}
	if recv := f.Signature.Recv(); recv != nil {
		t := recv.Type()
		if p, ok := t.(*types.Pointer); ok {
			t = p.Elem()
		}
		name := "?"
		if n, ok := t.(*types.Named); ok {
			name = n.Obj().Name()
			if n.Obj().Pkg() != nil {
				pkgPath = n.Obj().Pkg().Path()
			}
		}
		return pkgPath + "." + name + "." + f.Name()
	}
	return pkgPath + "." + f.Name()
}

// methodKey: key for an interface/abstract method (invoke mode).
func methodKey(fn *types.Func) string {
	sig := fn.Type().(*types.Signature)
	pkgPath := ""
	if fn.Pkg() != nil {
		pkgPath = fn.Pkg().Path()
	}
	if recv := sig.Recv(); recv != nil {
		t := recv.Type()
		if p, ok := t.(*types.Pointer); ok {
			t = p.Elem()
		}
		if n, ok := t.(*types.Named); ok {
			if n.Obj().Pkg() != nil {
				pkgPath = n.Obj().Pkg().Path()
			}
			return pkgPath + "." + n.Obj().Name() + "." + fn.Name()
		}
		return pkgPath + ".?." + fn.Name()
	}
	return pkgPath + "." + fn.Name()
}

func (P *Program) indexFuncs(sp *ssa.Package) {
	add := func(f *ssa.Function) {
		if f == nil || f.Blocks == nil && f.Synthetic != "" {
			return
		}
		var rec func(f *ssa.Function)
		rec = func(f *ssa.Function) {
			P.Funcs[funcKey(f)] = f
			for _, af := range f.AnonFuncs {
				rec(af)
			}
		}
		rec(f)
	}
	for _, m := range sp.Members {
		switch m := m.(type) {
		case *ssa.Function:
			add(m)
		case *ssa.Type:
			for _, t := range []types.Type{m.Type(), types.NewPointer(m.Type())} {
				ms := P.Prog.MethodSets.MethodSet(t)
				for i := 0; i < ms.Len(); i++ {
					sel := ms.At(i)
					fn := P.Prog.MethodValue(sel)
					if fn == nil || fn.Synthetic != "" {
						continue
					}
					add(fn)
				}
			}
		}
	}
}

// shortKey strips the module path for display.
func shortKey(k string) string {
	return strings.TrimPrefix(k, modPath+"/")
}

// lookupType resolves a (possibly qualified) type name in the context of package pkgPath.
func (P *Program) lookupNamed(pkgPath, name string) types.Type {
	var scopePkg *types.Package
	if i := strings.Index(name, "."); i >= 0 {
		q, n := name[:i], name[i+1:]
		// find imported package with that name
		for _, p := range P.Pkgs {
			if p.PkgPath == pkgPath || pkgPath == "" {
				for _, imp := range p.Types.Imports() {
					if imp.Name() == q {
						scopePkg = imp
					}
				}
			}
			if p.Types.Name() == q {
				scopePkg = p.Types
			}
		}
		if scopePkg == nil {
			return nil
		}
		name = n
	} else {
		if o := types.Universe.Lookup(name); o != nil {
			if tn, ok := o.(*types.TypeName); ok {
				return tn.Type()
			}
		}
		for _, p := range P.Pkgs {
			if p.PkgPath == pkgPath {
				scopePkg = p.Types
			}
		}
		if scopePkg == nil {
			// search all repo packages
			for _, p := range P.Pkgs {
				if o := p.Types.Scope().Lookup(name); o != nil {
					if tn, ok := o.(*types.TypeName); ok {
						return tn.Type()
					}
				}
			}
			return nil
		}
	}
	if o := scopePkg.Scope().Lookup(name); o != nil {
		if tn, ok := o.(*types.TypeName); ok {
			return tn.Type()
		}
	}
	return nil
}
