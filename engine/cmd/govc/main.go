package main

import (
	"runtime"
	"encoding/json"
	"flag"
	"fmt"
	"os"
	"path/filepath"
	"sort"
	"strconv"
	"strings"
	"time"
)

var allPkgDirs = []string{"base", "channels", "auth", "db", "rest"}

type knownFinding struct {
	Kind  string // finding | fixed
	Prop  string
	Obl   string
	Descr string
}

func loadKnown(path string) []knownFinding {
	data, err := os.ReadFile(path)
	if err != nil {
		return nil
	}
	var out []knownFinding
	for _, l := range strings.Split(string(data), "\n") {
		l = strings.TrimSpace(l)
		if l == "" || strings.HasPrefix(l, "#") {
			continue
		}
		kf := knownFinding{}
		switch {
		case strings.HasPrefix(l, "finding:"):
			kf.Kind = "finding"
			l = strings.TrimSpace(strings.TrimPrefix(l, "finding:"))
		case strings.HasPrefix(l, "fixed:"):
			kf.Kind = "fixed"
			l = strings.TrimSpace(strings.TrimPrefix(l, "fixed:"))
		default:
			continue
		}
		f := strings.Fields(l)
		var rest []string
		for _, w := range f {
			switch {
			case strings.HasPrefix(w, "property="):
				kf.Prop = strings.TrimPrefix(w, "property=")
			case strings.HasPrefix(w, "obligation="):
				kf.Obl = strings.TrimPrefix(w, "obligation=")
			default:
				rest = append(rest, w)
			}
		}
		kf.Descr = strings.Join(rest, " ")
		out = append(out, kf)
	}
	return out
}

func hasProp(props []string, p string) bool {
	for _, x := range props {
		if x == p {
			return true
		}
	}
	return false
}

func main() {
	os.Setenv("PATH", "/opt/veriftools/go1.26.8/bin:"+os.Getenv("PATH"))
	os.Setenv("GOFLAGS", "-mod=mod")
	os.Setenv("GOPROXY", "off")
	os.Setenv("GOSUMDB", "off")
	os.Setenv("GOTOOLCHAIN", "local")
	if len(os.Args) < 2 {
		fmt.Fprintln(os.Stderr, "usage: govc check|list|warm ...")
		os.Exit(2)
	}
	switch os.Args[1] {
	case "check":
		os.Exit(cmdCheck(os.Args[2:]))
	case "list":
		os.Exit(cmdList(os.Args[2:]))
	case "warm":
		P, err := loadProgram("/repo", allPkgDirs, "")
		if err != nil {
			fmt.Println("warm: ", err)
			os.Exit(1)
		}
		fmt.Printf("warm: %d functions indexed\n", len(P.Funcs))
	case "ssa":
		os.Exit(cmdSSA(os.Args[2:]))
	default:
		fmt.Fprintln(os.Stderr, "unknown command")
		os.Exit(2)
	}
}

func cmdSSA(args []string) int {
	fs := flag.NewFlagSet("ssa", flag.ExitOnError)
	repo := fs.String("repo", "/repo", "")
	fs.Parse(args)
	P, err := loadProgram(*repo, allPkgDirs, "")
	if err != nil {
		fmt.Println(err)
		return 1
	}
	for _, k := range fs.Args() {
		found := false
		for key, f := range P.Funcs {
			if shortKey(key) == k || key == k {
				f.WriteTo(os.Stdout)
				found = true
			}
		}
		if !found {
			fmt.Println("not found:", k)
		}
	}
	return 0
}

func cmdList(args []string) int {
	fs := flag.NewFlagSet("list", flag.ExitOnError)
	repo := fs.String("repo", "/repo", "")
	trusted := fs.String("trusted", "/verif/trusted", "")
	fs.Parse(args)
	P, err := loadProgram(*repo, allPkgDirs, *trusted)
	if err != nil {
		fmt.Println(err)
		return 1
	}
	for _, c := range P.Ordered {
		bound := ""
		if c.Kind == "func" && !c.Trusted {
			if P.Funcs[c.Key] == nil {
				bound = " UNBOUND"
			}
		}
		fmt.Printf("%-6s %-70s props=%v%s\n", c.Kind, shortKey(c.Key), c.Props, bound)
	}
	return 0
}

type evidence struct {
	PropertyID  string         `json:"property_id"`
	Tier        string         `json:"tier"`
	Seed        int            `json:"seed"`
	Level       string         `json:"level"`
	Coverage    map[string]any `json:"coverage"`
	Assumptions []string       `json:"assumptions"`
	WallS       float64        `json:"wall_s"`
	Violations  int            `json:"violations"`
}

func cmdCheck(args []string) int {
	fs := flag.NewFlagSet("check", flag.ExitOnError)
	prop := fs.String("prop", "", "property id")
	tier := fs.String("tier", "quick", "quick|thorough")
	repo := fs.String("repo", "/repo", "")
	trusted := fs.String("trusted", "/verif/trusted", "")
	evPath := fs.String("evidence", "", "evidence file")
	dump := fs.String("dump", "", "keep SMT files in this directory")
	only := fs.String("func", "", "only functions/lemmas whose name contains this")
	known := fs.String("known", "/verif/known_findings.txt", "")
	replayDir := fs.String("replays", "/verif/replays", "")
	secsFlag := fs.Int("timeout", 0, "per-obligation timeout (s)")
	alsoTags := fs.String("also", "", "comma-separated extra contract tags whose obligations are included in this property's run (e.g. slow proofs kept out of the quick tier)")
	verbose := fs.Bool("v", false, "")
	fs.Parse(args)
	t0 := time.Now()
	seed := 0
	if s := os.Getenv("VERIF_SEED"); s != "" {
		seed, _ = strconv.Atoi(s)
	}
	secs := 10
	if *tier == "thorough" {
		secs = 120
		confirmUnsat = true
	}
	if *secsFlag > 0 {
		secs = *secsFlag
	}
	fail := func(msg string) int {
		// engine-level failure: the proof does not cover the code => report as violation without input
		os.MkdirAll(*replayDir, 0o755)
		rp := filepath.Join(*replayDir, fmt.Sprintf("%s-engine.txt", *prop))
		os.WriteFile(rp, []byte("obligation: (engine) \n"+msg+"\n"), 0o644)
		fmt.Println(msg)
		fmt.Printf("VIOLATION property=%s replay=%s obligation=engine no-failing-input-found\n", *prop, rp)
		return 1
	}
	P, err := loadProgram(*repo, allPkgDirs, *trusted)
	if err != nil {
		return fail("load: " + err.Error())
	}
	for f, e := range P.FileErrs {
		if strings.Contains(strings.ToLower(filepath.Base(f)), strings.ToLower(*prop)) {
			return fail("contract file error: " + e)
		}
		fmt.Printf("warning: contract file skipped or partly ignored (not part of %s): %s\n", *prop, e)
	}
	P.NoAssume = map[string]bool{}
	for _, k := range loadKnown(*known) {
		if k.Kind == "finding" {
			P.NoAssume[k.Obl] = true
		}
	}
	tLoad := time.Since(t0).Seconds()
	scratch := *dump
	if scratch == "" {
		base := os.Getenv("TMPDIR")
		if base == "" {
			base = "/var/tmp"
		}
		scratch, _ = os.MkdirTemp(base, "govc.")
		defer os.RemoveAll(scratch)
	} else {
		os.MkdirAll(scratch, 0o755)
	}
	var obls []*Obligation
	var deferred []string // obligations marked thorough-only, not discharged in this (quick) run
	var genErrs []string
	var funcs []map[string]any
	assumptions := map[string]bool{}
	trustedUsed := map[string]bool{}
	for _, c := range P.Ordered {
		alsoOnly := false
		extra := false
		for _, t := range strings.Split(*alsoTags, ",") {
			if t != "" && hasProp(c.Props, t) {
				extra = true
			}
		}
		if !hasProp(c.Props, *prop) && !extra {
			if len(c.Also[*prop]) == 0 {
				continue
			}
			alsoOnly = true
		}
		if *only != "" && !strings.Contains(c.Key, *only) && !strings.Contains(c.Name, *only) {
			continue
		}
		var g *Gen
		var err error
		switch {
		case c.Kind == "func" && !c.Trusted:
			g, err = verifyFunc(P, c)
			if err == nil {
				fn := P.Funcs[c.Key]
				n := 0
				for _, b := range fn.Blocks {
					n += len(b.Instrs)
				}
				pos := P.Prog.Fset.Position(fn.Pos())
				funcs = append(funcs, map[string]any{"name": shortKey(c.Key), "file": strings.TrimPrefix(pos.Filename, *repo+"/"), "ssa_instrs": n, "mode": g.mode, "safety": c.Safety, "pure": c.Pure})
			}
		case c.Kind == "func" && c.Trusted:
			trustedUsed[shortKey(c.Key)] = true
			if !c.CheckCalls {
				continue
			}
			// trusted frame (modifies/ensures assumed), but the call-site clauses are verified against the body
			g, err = verifyFunc(P, c)
		case c.Kind == "lemma":
			g, err = verifyLemma(P, c)
		default:
			continue
		}
		if err != nil {
			genErrs = append(genErrs, err.Error())
			continue
		}
		for _, o := range g.obls {
			if alsoOnly {
				keep := false
				for _, l := range c.Also[*prop] {
					if strings.HasSuffix(o.Name, "/"+l) || strings.Contains(o.Name, "/"+l+"@") || strings.Contains(o.Name, "/"+l+"#") {
						keep = true
					}
				}
				if !keep {
					continue
				}
			}
			if *tier != "thorough" && o.Expect == "unsat" {
				skip := false
				for _, l := range c.ThoroughOnly {
					if strings.HasSuffix(o.Name, "/"+l) || strings.Contains(o.Name, "/"+l+"@") || strings.Contains(o.Name, "/"+l+"#") {
						skip = true
					}
				}
				if skip {
					deferred = append(deferred, o.Name)
					continue
				}
			}
			o.NFacts = max(o.NFacts, 0)
			if o.Kind == "lemma" {
				o.NFacts = len(g.facts)
			}
			obls = append(obls, o)
		}
		for a := range g.assumptions {
			assumptions[a] = true
			if *verbose && (strings.Contains(a, "havocked") || strings.Contains(a, "without contract")) {
				fmt.Printf("  note[%s]: %s\n", g.curFunc, a)
			}
		}
		for _, w := range g.warn {
			assumptions["warning: "+w] = true
		}
	}
	if len(genErrs) > 0 {
		return fail("generation errors:\n  " + strings.Join(genErrs, "\n  "))
	}
	if len(obls) == 0 {
		return fail("no obligations generated for " + *prop + " (vacuous check)")
	}
	tGen := time.Since(t0).Seconds() - tLoad
	// solver limits are wall-clock: on an overloaded machine (load average above the core count) they are
	// scaled so that a busy host does not turn valid obligations into time-outs
	lf := loadFactor()
	secs *= lf
	dischargeAll(obls, scratch, secs, parallelism())
	// retry unknowns once at 3x on quick tier
	var retry []*Obligation
	for _, o := range obls {
		if o.Result == "unknown" && o.Expect == "unsat" {
			retry = append(retry, o)
		}
	}
	if len(retry) > 0 && (len(retry) <= 8 || lf > 1 || loadFactor() > 1) {
		par := parallelism()
		if len(retry) > 8 && par > 4 {
			par = 4
		}
		dischargeAll(retry, scratch, secs*3, par)
	}
	// verdicts
	kf := loadKnown(*known)
	isKnown := func(name string) *knownFinding {
		for i := range kf {
			if kf[i].Kind == "finding" && kf[i].Prop == *prop && kf[i].Obl == name {
				return &kf[i]
			}
		}
		return nil
	}
	byBackend := map[string]map[string]any{}
	discharged, nProof, violations, covers, coversOK := 0, 0, 0, 0, 0
	confirmed := 0
	solverS := 0.0
	var samples []any
	var lines []string
	rc := 0
	var knownMatched []string
	sort.SliceStable(obls, func(i, j int) bool { return obls[i].Name < obls[j].Name })
	for _, o := range obls {
		solverS += o.Secs
		status := ""
		if o.Expect == "sat" {
			covers++
			switch o.Result {
			case "sat":
				coversOK++
				status = "cover-ok"
			case "unsat":
				status = "VACUOUS"
			default:
				coversOK++
				status = "cover-unknown"
			}
		} else {
			nProof++
			switch o.Result {
			case "unsat":
				discharged++
				status = "proved"
				if o.Confirmed != "" {
					confirmed++
				}
				bb := byBackend[o.Solver]
				if bb == nil {
					bb = map[string]any{"count": 0, "secs": 0.0}
					byBackend[o.Solver] = bb
				}
				bb["count"] = bb["count"].(int) + 1
				bb["secs"] = bb["secs"].(float64) + o.Secs
			case "sat":
				status = "REFUTED"
			default:
				status = "UNDISCHARGED(" + o.Result + ")"
			}
		}
		if *verbose || !(status == "proved" || status == "cover-ok") {
			lines = append(lines, fmt.Sprintf("  %-16s %-90s %s %.2fs %dB %s", status, o.Name, o.Solver, o.Secs, o.SMTSize, o.Note))
		}
		if len(samples) < 6 && o.Expect == "unsat" {
			samples = append(samples, map[string]any{"obligation": o.Name, "clause": o.Src, "verdict": o.Result, "solver": o.Solver, "smt_bytes": o.SMTSize})
		}
		bad := (o.Expect == "unsat" && o.Result != "unsat") || (o.Expect == "sat" && o.Result == "unsat")
		if !bad {
			continue
		}
		if k := isKnown(o.Name); k != nil {
			fmt.Printf("KNOWN-FINDING: property=%s obligation=%s %s\n", *prop, o.Name, k.Descr)
			knownMatched = append(knownMatched, o.Name)
			// known finding counts as decided (the failing clause is recorded), not as discharged
			continue
		}
		violations++
		rc = 1
		os.MkdirAll(*replayDir, 0o755)
		rp := filepath.Join(*replayDir, fmt.Sprintf("%s-%s.txt", *prop, sanitizeFile(o.Name)))
		var rb strings.Builder
		fmt.Fprintf(&rb, "obligation: %s\nproperty: %s\nclause: %s\nwhere: %s\nexpected: %s\nresult: %s (%s, %.2fs)\nnote: %s\n", o.Name, *prop, o.Src, o.Where, o.Expect, o.Result, o.Solver, o.Secs, o.Note)
		suffix := " no-failing-input-found"
		if o.Model != "" {
			fmt.Fprintf(&rb, "\n--- solver model (projection of inputs follows the raw model) ---\n%s\n", truncate(o.Model, 20000))
			if rep := tryReplay(P, o, *repo, scratch, &rb); rep {
				suffix = ""
			}
		}
		os.WriteFile(rp, []byte(rb.String()), 0o644)
		fmt.Printf("VIOLATION property=%s replay=%s obligation=%s%s\n", *prop, rp, o.Name, suffix)
	}
	wall := time.Since(t0).Seconds()
	fmt.Printf("govc %s %s: %d obligations, %d discharged, %d known findings, %d violations; %d cover queries (%d ok); load %.1fs gen %.1fs solver %.1fs wall %.1fs\n",
		*prop, *tier, nProof, discharged, len(knownMatched), violations, covers, coversOK, tLoad, tGen, solverS, wall)
	for _, l := range lines {
		fmt.Println(l)
	}
	if *evPath != "" {
		if len(deferred) > 0 {
			assumptions["quick tier: "+strconv.Itoa(len(deferred))+" slow obligations are discharged only by the thorough tier (listed under coverage.deferred_to_thorough_tier); the quick tier assumes them"] = true
		}
		var as []string
		for a := range assumptions {
			as = append(as, a)
		}
		as = append(as,
			"engine: modifies clauses of callee contracts are assumed at call sites; a body is compared with its own modifies clause only syntactically at component granularity (FRAME-GAP lines above list every gap found on this run)",
			"engine: partial correctness only (termination is not proved); run-time panics are proved absent only in functions with `safety on`, elsewhere they are assumed absent",
			"engine: sequential semantics: goroutine interleavings are not modelled; channel operations and select have no heap effect and yield arbitrary values; state protected by a lock is assumed stable while the lock is held",
			"engine: strings are abstract values (equality, length, distinct literals, uninterpreted total order); floating point is uninterpreted; map iteration order is arbitrary (all orders are covered)",
			"engine: cover (vacuity) queries are advisory: with quantified axioms the solvers mostly answer unknown; non-vacuity is established by the must-fail corpus (./check selftest)")
		sort.Strings(as)
		var tb []string
		for t := range trustedUsed {
			tb = append(tb, "trusted contract: "+t)
		}
		sort.Strings(tb)
		tb = append(tb, "govc VC generator (this repository, /verif/engine)", "go/ssa + go/types (golang.org/x/tools v0.50.0, go1.26.8)", "z3 5.1.0, z3 4.8.12, cvc5 1.0.3 (first unsat wins)",
			"sequential semantics: goroutine interleavings not modelled; lock-protected state assumed stable while the lock is held")
		level := "proof"
		ev := evidence{PropertyID: *prop, Tier: *tier, Seed: seed, Level: level, WallS: wall, Violations: violations, Assumptions: as}
		ev.Coverage = map[string]any{
			"obligations":              nProof - len(knownMatched),
			"discharged":               discharged,
			"known_findings":           knownMatched,
			"checker_cmd":              "govc check -prop " + *prop + " -tier " + *tier,
			"trusted_base":             tb,
			"functions_under_contract": funcs,
			"by_backend":               byBackend,
			"solver_s":                 solverS,
			"cover_queries":            covers,
			"cover_queries_ok":         coversOK,
			"samples":                  samples,
			"timeout_s":                secs,
			"unsat_confirmed_by_second_solver": confirmed,
			"integer_semantics":        "per function: mode int = mathematical integers with machine ranges assumed on inputs/loads and exact wrap-around for unsigned + - *; mode bv = exact 64-bit vectors",
		}
		{
			// the ten slowest discharged obligations (robustness margin against the per-obligation time limit)
			var os2 []*Obligation
			for _, o := range obls {
				if o.Expect == "unsat" && o.Result == "unsat" {
					os2 = append(os2, o)
				}
			}
			sort.Slice(os2, func(i, j int) bool { return os2[i].Secs > os2[j].Secs })
			var slow []map[string]any
			for i, o := range os2 {
				if i >= 10 {
					break
				}
				slow = append(slow, map[string]any{"name": o.Name, "secs": o.Secs, "solver": o.Solver})
			}
			ev.Coverage["slowest_obligations"] = slow
		}
		if len(deferred) > 0 {
			ev.Coverage["deferred_to_thorough_tier"] = deferred
		}
		if len(knownMatched) > 0 {
			ev.Coverage["note"] = "obligations listed under known_findings failed as recorded in /verif/known_findings.txt and are not counted as discharged"
		}
		os.MkdirAll(filepath.Dir(*evPath), 0o755)
		data, _ := json.MarshalIndent(ev, "", " ")
		os.WriteFile(*evPath, data, 0o644)
	}
	return rc
}

// loadFactor: ceil(1-minute load average / cores), clamped to [1,6].
func loadFactor() int {
	b, err := os.ReadFile("/proc/loadavg")
	if err != nil {
		return 1
	}
	f := strings.Fields(string(b))
	if len(f) == 0 {
		return 1
	}
	l, err := strconv.ParseFloat(f[0], 64)
	if err != nil {
		return 1
	}
	n := runtime.NumCPU()
	k := int(l/float64(n) + 0.999)
	if k < 1 {
		k = 1
	}
	if k > 6 {
		k = 6
	}
	return k
}

// parallelism: number of obligations discharged at once (GOVC_PAR overrides; default 6 because the
// sandbox is usually shared with other runs; ./check sets 12).
func parallelism() int {
	if v, err := strconv.Atoi(os.Getenv("GOVC_PAR")); err == nil && v > 0 {
		return v
	}
	return 6
}

func truncate(s string, n int) string {
	if len(s) > n {
		return s[:n] + "\n...[truncated]"
	}
	return s
}
